"""C16 — wire leg: the call site of wait_paused() in Client::handle, executed.

pgcat in-process (harness bin `wire`) with three pools — `pt` pool_mode = transaction, `ps`
pool_mode = session at pool level, `pu` transaction at pool level with the user-level override
pool_mode = session — each on its own mock backend; PAUSE / RESUME (global and `db,user`) through
a real admin client; scripted clients that are idle without a server, arriving, mid-transaction,
between transactions, or session clients that already hold a server.

Every scenario is built together with its schedule of Pause/Model.v (one schedule per pool):
  a statement that needs a checkout  = CReg c; CLoad c; CDecide c   (one wait_paused() call)
  the release of a held statement    = CWake c
  end of a transaction (transaction mode only; a session client keeps its server) = CDone c
  PAUSE = APause, RESUME = AStore; ANotify      (on every pool the command addresses)
and is judged three ways:
  * model: trace_codes (vm_compute) says blocked / past the gate after the statement's CDecide,
    past the gate after the CWake — compared with what was observed;
  * monitor (no model): a statement that needs a checkout and is sent while its pool is paused
    (PAUSE acknowledged, RESUME not yet sent) does not reach any mock backend before the RESUME is
    sent (150 ms observation window on the client, the backend log for the order), statements of
    running transactions and of session clients that hold a server are served during the pause,
    and after RESUME every held statement reaches the backend and is answered;
  * "needs a checkout" is scenario knowledge (mode, in transaction, already served), not the model.
Further families: RELOADs that remove / re-add / replace a pool (Pause/ReloadModel: ReloadRemove, ReloadFresh,
ReloadShared; a session of a removed pool is told "No pool configured", w-iv); pipelining (several statements in ONE
TCP write, the first blocked on the mock's gate while PAUSE is acknowledged: in transaction mode every further
statement is a new gate passage and is held; a session client keeps its server); custom commands (SET SERVER ROLE,
SHOW SHARD, ...) are answered by pgcat at once, paused or not (w-v); a RELOAD that is refused (validate_config, a pool
that cannot be built) leaves the pause and the waiters untouched (no model step).
"""
import json, os, time
import vlib
from props import wirelib as WL

POOLS = {"txn": ("pt", "bt"), "spool": ("ps", "bs"), "suser": ("pu", "bu")}
WINDOW_MS = 150
PREAMBLE = "From PV Require Import Pause.Model Pause.ReloadModel.\nFrom Coq Require Import List. Import ListNotations."


def toml(removed=(), sizes=None, mins=None, validate=False):
    """removed: pool kinds left out of the file; sizes: {kind: pool_size} (a changed size re-creates that pool);
    mins: {kind: min_pool_size}; validate: general.validate_config (pools are then built by connecting)"""
    sizes = sizes or {}
    mins = mins or {}

    def pool(b, mode, umode, size, mn):
        u = {"username": "u", "password": "pw", "pool_size": size}
        if umode:
            u["pool_mode"] = umode
        if mn:
            u["min_pool_size"] = mn
        return {"opts": {"pool_mode": mode}, "users": [u], "shards": [{"database": "d", "servers": [[b, "primary"]]}]}
    spec = {"txn": ("transaction", None), "spool": ("session", None), "suser": ("transaction", "session")}
    pools = {}
    for k, (pname, b) in POOLS.items():
        if k not in removed:
            pools[pname] = pool(b, spec[k][0], spec[k][1], sizes.get(k, 6), mins.get(k))
    return WL.make_toml(general={"validate_config": True} if validate else None, pools=pools)


def session_mode(kind):
    return kind != "txn"


class Script:
    """Wire steps + per-pool model schedule + statement records, built side by side."""

    def __init__(self, name, mutant=None, validate=False):
        self.name = name
        self.mutant = mutant
        self.validate = validate
        self.adm = "adm"
        self.steps = [{"op": "connect", "c": "adm", "params": {"user": "admin", "database": "pgcat"}, "password": "adminpw"}]
        self.cl = {}                      # c -> {kind, server, txn, held (stmt index or None), n}
        self.paused = {k: False for k in POOLS}          # what the script believes (PAUSE acknowledged .. RESUME sent)
        self.model = {k: [] for k in POOLS}              # kind -> [coq event strings]
        self.idx = {k: {} for k in POOLS}                # kind -> {client: model index}
        self.stmts = []
        self.admin = []                   # [{"label", "sql", "pools"}]
        self.nadm = 0
        self.removed = set()              # pool kinds currently not in the configuration
        self.sizes = {}

    # -- helpers
    def _mi(self, c):
        k = self.cl[c]["kind"]
        return self.idx[k].setdefault(c, len(self.idx[k]))

    def _ev(self, kind, s, raw=False):
        """append a step of Pause.ReloadModel for this pool (gate steps are wrapped in [Base])"""
        self.model[kind].append(s if raw else ("Base (%s)" % s if " " in s else "Base %s" % s))
        return len(self.model[kind]) - 1

    def connect(self, c, kind):
        self.cl[c] = {"kind": kind, "server": False, "txn": False, "held": None, "n": 0}
        self.steps.append({"op": "connect", "c": c, "params": {"user": "u", "database": POOLS[kind][0]}, "password": "pw"})

    def can_send(self, c):
        return self.cl[c]["held"] is None

    def reload(self, removed=None, sizes=None):
        """rewrite the configuration file and RELOAD through the admin client"""
        removed = set(self.removed if removed is None else removed)
        sizes = dict(self.sizes if sizes is None else sizes)
        label = "adm%d" % self.nadm
        self.nadm += 1
        self.steps += [{"op": "write_config", "toml": toml(removed, sizes, validate=self.validate)},
                       {"op": "send", "c": self.adm, "msgs": [{"t": "Q", "sql": "RELOAD"}]},
                       {"op": "recv", "c": self.adm, "until": "Z", "timeout_ms": 3000, "label": label}]
        self.admin.append({"label": label, "sql": "RELOAD", "verb": "RELOAD", "kinds": []})
        for k in POOLS:
            if k in removed and k not in self.removed:
                self._ev(k, "ReloadRemove", raw=True); self.paused[k] = False       # from_config resumes the pool it drops
                for c, st in self.cl.items():
                    if st["kind"] == k and st["held"] is not None and st["held"] >= 0:
                        rec = self.stmts[st["held"]]
                        rec["pos_after"] = self._ev(k, "CWake %d" % self._mi(c))
                        rec["released_by"] = label
                        rec["released_by_removal"] = True      # past the gate, then the second lookup fails: error, session ends
                        self.steps.append({"op": "recv", "c": c, "until": "Z", "timeout_ms": 3000, "label": rec["tag"] + ":after"})
                        st["held"] = -1
            elif k not in removed and k in self.removed:
                self._ev(k, "ReloadFresh", raw=True)                                 # added again: fresh flag and Notify
            elif k not in removed and sizes.get(k) != self.sizes.get(k):
                self._ev(k, "ReloadShared", raw=True)                                # replaced: shares the pause cell
        self.removed, self.sizes = removed, sizes

    def stmt(self, c, what):
        """what: plain | ext | begin | in | commit"""
        st = self.cl[c]
        kind = st["kind"]
        assert st["held"] is None
        st["n"] += 1
        tag = "%s_%d" % (c, st["n"])
        if what == "custom":
            # answered by pgcat itself (handle_custom_protocol), before the gate: no checkout, no wait
            self._mi(c)
            sql = ["SET SERVER ROLE TO 'primary'", "SHOW SERVER ROLE", "SET SHARD TO '0'", "SHOW SHARD"][st["n"] % 4]
            rec = {"tag": tag, "c": c, "kind": kind, "what": what, "needs_checkout": False, "paused_at_send": self.paused[kind],
                   "expect_held": False, "pos": None, "pos_after": None, "released_by": None, "nopool": False, "custom": True}
            self.steps.append({"op": "send", "c": c, "msgs": [{"t": "Q", "sql": sql}]})
            self.steps.append({"op": "recv", "c": c, "until": "Z", "timeout_ms": 3000, "label": tag + ":window"})
            self.stmts.append(rec)
            return rec
        needs = not st["server"]
        sql = {"plain": "SELECT '%s'" % tag, "ext": "SELECT '%s'" % tag, "extflush": "SELECT '%s'" % tag, "begin": "BEGIN /* %s */" % tag,
               "in": "SELECT '%s'" % tag, "commit": "COMMIT /* %s */" % tag}[what]
        msgs2 = None
        if what in ("ext", "extflush"):
            msgs = [{"t": "P", "name": "", "sql": sql, "types": []}, {"t": "B", "portal": "", "name": "", "fmts": [], "params": [], "rfmts": []},
                    {"t": "E", "portal": "", "max": 0}, {"t": "S"}]
            if what == "extflush":
                # Parse, Bind, Execute, Flush in one write, the Sync a little later (pipelining clients): the Flush is the
                # first message that reaches the checkout, and it is neither a query nor a Sync
                msgs, msgs2 = msgs[:3] + [{"t": "H"}], [{"t": "S"}]
        else:
            msgs = [{"t": "Q", "sql": sql}]
        rec = {"tag": tag, "c": c, "kind": kind, "what": what, "needs_checkout": needs, "paused_at_send": self.paused[kind],
               "expect_held": needs and self.paused[kind], "pos": None, "pos_after": None, "released_by": None, "nopool": False}
        gated = needs and not (self.mutant == "session_arrival_not_gated" and session_mode(kind))
        m = self._mi(c)
        if needs and kind in self.removed:
            # the session's pool is gone: its lookup fails, it is told so and ends; the model refuses the CReg
            rec.update(nopool=True, expect_held=False, prefix=list(self.model[kind]), m=m)
            self.steps.append({"op": "send", "c": c, "msgs": msgs})
            self.steps.append({"op": "recv", "c": c, "until": "EZ", "timeout_ms": 3000, "label": tag + ":window"})
            st["held"] = -1                  # dead: no further statements
            self.stmts.append(rec)
            return rec
        if gated:
            self._ev(kind, "CReg %d" % m); self._ev(kind, "CLoad %d" % m)
            rec["pos"] = self._ev(kind, "CDecide %d" % m)
        self.steps.append({"op": "send", "c": c, "msgs": msgs})
        if msgs2:
            self.steps += [{"op": "sleep", "ms": 40}, {"op": "send", "c": c, "msgs": msgs2}]
        if rec["expect_held"]:
            self.steps.append({"op": "recv", "c": c, "until": "Z", "timeout_ms": WINDOW_MS, "label": tag + ":window"})
            st["held"] = len(self.stmts)
        else:
            self.steps.append({"op": "recv", "c": c, "until": "Z", "timeout_ms": 3000, "label": tag + ":window"})
            self._after(c, rec)
        self.stmts.append(rec)
        return rec

    def _after(self, c, rec):
        """bookkeeping once the statement has been served"""
        st = self.cl[c]
        kind = st["kind"]
        what = rec["what"]
        if session_mode(kind):
            st["server"] = True
            st["txn"] = what in ("begin", "in") or (st["txn"] and what != "commit")
            return
        if what == "begin":
            st["server"] = st["txn"] = True
        elif what in ("plain", "ext", "extflush") and not st["txn"]:
            if rec["pos"] is not None:
                self._ev(kind, "CDone %d" % self._mi(c))
        elif what == "commit":
            st["server"] = st["txn"] = False
            self._ev(kind, "CDone %d" % self._mi(c))

    def admin_cmd(self, verb, kind=None, send_sql=None):
        """verb: PAUSE | RESUME; kind None = all pools.  send_sql overrides what goes on the wire (self-test)."""
        sql = verb if kind is None else "%s %s,u" % (verb, POOLS[kind][0])
        label = "adm%d" % self.nadm
        self.nadm += 1
        kinds = [k for k in POOLS if k not in self.removed] if kind is None else [kind]
        self.steps += [{"op": "send", "c": self.adm, "msgs": [{"t": "Q", "sql": send_sql or sql}]},
                       {"op": "recv", "c": self.adm, "until": "Z", "timeout_ms": 3000, "label": label}]
        self.admin.append({"label": label, "sql": sql, "verb": verb, "kinds": kinds})
        for k in kinds:
            if verb == "PAUSE":
                self._ev(k, "APause"); self.paused[k] = True
            else:
                self._ev(k, "AStore"); self._ev(k, "ANotify"); self.paused[k] = False
        if verb == "RESUME":
            for c, st in self.cl.items():
                if st["held"] is not None and st["held"] >= 0 and st["kind"] in kinds:
                    rec = self.stmts[st["held"]]
                    rec["pos_after"] = self._ev(st["kind"], "CWake %d" % self._mi(c))
                    rec["released_by"] = label
                    self.steps.append({"op": "recv", "c": c, "until": "Z", "timeout_ms": 3000, "label": rec["tag"] + ":after"})
                    st["held"] = None
                    self._after(c, rec)
                    for qi in st.pop("queue", []):
                        # the statements queued behind it: each a new transaction, each a new gate passage, now unpaused
                        q = self.stmts[qi]
                        mi = self._mi(c)
                        self._ev(st["kind"], "CReg %d" % mi); self._ev(st["kind"], "CLoad %d" % mi)
                        q["pos_after"] = self._ev(st["kind"], "CDecide %d" % mi)
                        q["released_by"] = label
                        self.steps.append({"op": "recv", "c": c, "until": "Z", "timeout_ms": 3000, "label": q["tag"] + ":after"})
                        self._ev(st["kind"], "CDone %d" % mi)

    def pipeline(self, c, n, ext, scope, send_sql=None):
        """Client c (no server, pool not paused) writes n statements in ONE TCP write; the first one runs on the
        backend until the scenario opens its gate; PAUSE (scope: None = all pools, else c's pool) is acknowledged
        while it runs; then the gate is opened.  Transaction mode: the first finishes, every FURTHER statement is
        a new transaction = a new gate passage, held until RESUME.  Session mode: the client keeps its server."""
        st = self.cl[c]
        kind = st["kind"]
        assert not st["server"] and not self.paused[kind] and st["held"] is None
        m = self._mi(c)
        gate = "g_%s_%d" % (c, st["n"] + 1)
        msgs, recs = [], []
        for j in range(n):
            st["n"] += 1
            tag = "%s_%d" % (c, st["n"])
            sql = "SELECT '%s'%s" % (tag, " /*mock: gate=%s*/" % gate if j == 0 else "")
            if ext:
                msgs += [{"t": "P", "name": "", "sql": sql, "types": []}, {"t": "B", "portal": "", "name": "", "fmts": [], "params": [], "rfmts": []},
                         {"t": "E", "portal": "", "max": 0}, {"t": "S"}]
            else:
                msgs.append({"t": "Q", "sql": sql})
            recs.append({"tag": tag, "c": c, "kind": kind, "what": "ext" if ext else "plain", "needs_checkout": j == 0 or not session_mode(kind),
                         "paused_at_send": j > 0, "expect_held": j > 0 and not session_mode(kind), "pos": None, "pos_after": None,
                         "released_by": None, "nopool": False, "pipelined": j})
        busy = sum(1 for x in self.cl.values() if x["server"]) + 1
        self.steps += [{"op": "send", "c": c, "msgs": msgs}, {"op": "wait_inuse", "n": busy, "timeout_ms": 3000}, {"op": "sleep", "ms": 40}]
        gated = not (self.mutant == "session_arrival_not_gated" and session_mode(kind))
        if gated:
            self._ev(kind, "CReg %d" % m); self._ev(kind, "CLoad %d" % m)
            recs[0]["pos"] = self._ev(kind, "CDecide %d" % m)
        self.admin_cmd("PAUSE", scope, send_sql=send_sql)
        if send_sql:
            self.admin[-1]["sql"] = send_sql
        self.steps.append({"op": "backend", "b": POOLS[kind][1], "open_gate": gate})
        self.steps.append({"op": "recv", "c": c, "until": "Z", "timeout_ms": 3000, "label": recs[0]["tag"] + ":window"})
        self.stmts.append(recs[0])
        if session_mode(kind):
            st["server"] = True
            for r in recs[1:]:
                self.steps.append({"op": "recv", "c": c, "until": "Z", "timeout_ms": 3000, "label": r["tag"] + ":window"})
                self.stmts.append(r)
            return
        self._ev(kind, "CDone %d" % m)
        # the second statement is the next transaction: a new gate passage, while paused
        if self.mutant != "pipelined_keeps_server":
            self._ev(kind, "CReg %d" % m); self._ev(kind, "CLoad %d" % m)
            recs[1]["pos"] = self._ev(kind, "CDecide %d" % m)
        self.steps.append({"op": "recv", "c": c, "until": "Z", "timeout_ms": WINDOW_MS, "label": recs[1]["tag"] + ":window"})
        st["held"] = len(self.stmts)
        self.stmts.append(recs[1])
        st["queue"] = []
        for r in recs[2:]:
            r["queued"] = True                # not started before the one in front of it is done
            st["queue"].append(len(self.stmts))
            self.stmts.append(r)

    def refused_reload(self, drop, fail, really=True):
        """A RELOAD that cannot be applied: the new file drops pool `drop` and changes pool `fail` (min_pool_size 1,
        validate_config = true) whose backend refuses connections, so building it fails and the whole reload is refused:
        POOLS, pause flags and waiters must be exactly as before."""
        assert self.validate
        label = "adm%d" % self.nadm
        self.nadm += 1
        sizes = dict(self.sizes); sizes[fail] = 5
        self.steps += [{"op": "backend", "b": POOLS[fail][1], "mode": "refuse" if really else "normal"},
                       {"op": "write_config", "toml": toml(set(self.removed) | {drop}, sizes, mins={fail: 1}, validate=True)},
                       {"op": "send", "c": self.adm, "msgs": [{"t": "Q", "sql": "RELOAD"}]},
                       {"op": "recv", "c": self.adm, "until": "ZE", "timeout_ms": 3000, "label": label}]
        self.admin.append({"label": label, "sql": "RELOAD", "verb": "RELOAD_REFUSED", "kinds": []})
        for c, st in self.cl.items():
            if st["held"] is not None and st["held"] >= 0:
                self.still_held_window(c)
        # the admin session ends with the failed command; go on with a new one, on a healthy backend and the old file
        self.adm = "adm_%d" % self.nadm
        self.steps += [{"op": "backend", "b": POOLS[fail][1], "mode": "normal"},
                       {"op": "write_config", "toml": toml(self.removed, self.sizes, validate=True)},
                       {"op": "connect", "c": self.adm, "params": {"user": "admin", "database": "pgcat"}, "password": "adminpw"}]

    def still_held_window(self, c):
        """observe again that a held client is still held (e.g. after a RESUME of another pool)"""
        rec = self.stmts[self.cl[c]["held"]]
        self.steps.append({"op": "recv", "c": c, "until": "Z", "timeout_ms": WINDOW_MS, "label": rec["tag"] + ":window2"})

    def scenario(self):
        return {"backends": [{"name": b} for _, b in POOLS.values()], "toml": toml(validate=self.validate), "steps": self.steps}

    def meta(self):
        return {"name": self.name, "stmts": self.stmts, "admin": self.admin, "model": self.model, "nclients": {k: len(v) for k, v in self.idx.items()}}


# ----------------------------------------------------------------------------- scenario families

def other(kind):
    return {"txn": "spool", "spool": "suser", "suser": "txn"}[kind]


def build_all(rng, nrandom, mutant=None):
    out = []

    def S(name):
        s = Script(name, mutant)
        out.append(s)
        return s
    for kind in POOLS:
        for scope in ("all", "pool"):
            k = None if scope == "all" else kind
            t = "%s/%s" % (kind, scope)
            s = S("idle client without a server sends its first query while paused [%s]" % t)
            s.connect("c0", kind); s.admin_cmd("PAUSE", k); s.stmt("c0", "plain"); s.admin_cmd("RESUME", k); s.stmt("c0", "plain")
            s = S("client arriving (connects) while paused [%s]" % t)
            s.admin_cmd("PAUSE", k); s.connect("c0", kind); s.stmt("c0", "plain"); s.admin_cmd("RESUME", k)
            s = S("mid-transaction at PAUSE: the transaction goes on, the next one is a new checkout [%s]" % t)
            s.connect("c0", kind); s.stmt("c0", "begin"); s.admin_cmd("PAUSE", k); s.stmt("c0", "in"); s.stmt("c0", "commit"); s.stmt("c0", "plain"); s.admin_cmd("RESUME", k)
            s = S("between transactions at PAUSE [%s]" % t)
            s.connect("c0", kind); s.stmt("c0", "plain"); s.admin_cmd("PAUSE", k); s.stmt("c0", "plain"); s.admin_cmd("RESUME", k); s.stmt("c0", "plain")
            s = S("one client in a transaction, one arriving [%s]" % t)
            s.connect("c0", kind); s.connect("c1", kind); s.stmt("c0", "begin"); s.admin_cmd("PAUSE", k); s.stmt("c1", "plain"); s.stmt("c0", "in")
            s.admin_cmd("RESUME", k); s.stmt("c0", "commit")
            s = S("PAUSE, RESUME, PAUSE again [%s]" % t)
            s.connect("c0", kind); s.connect("c1", kind); s.admin_cmd("PAUSE", k); s.stmt("c0", "plain"); s.admin_cmd("RESUME", k)
            s.admin_cmd("PAUSE", k); s.stmt("c1", "begin"); s.stmt("c0", "plain"); s.admin_cmd("RESUME", k); s.stmt("c1", "commit")
            s = S("three clients held at once, a session/transaction holder goes on [%s]" % t)
            for c in ("c0", "c1", "c2", "c3"):
                s.connect(c, kind)
            s.stmt("c3", "begin"); s.admin_cmd("PAUSE", k); s.stmt("c0", "plain"); s.stmt("c1", "ext"); s.stmt("c2", "begin"); s.stmt("c3", "in")
            s.admin_cmd("RESUME", k); s.stmt("c2", "commit"); s.stmt("c3", "commit")
        o = other(kind)
        s = S("PAUSE of another pool does not hold; RESUME of another pool does not release [%s]" % kind)
        s.connect("c0", kind); s.connect("c1", o); s.admin_cmd("PAUSE", o); s.stmt("c0", "plain"); s.stmt("c1", "plain")
        s.admin_cmd("PAUSE", kind); s.admin_cmd("RESUME", o); s.stmt("c0", "plain")
        if s.cl["c0"]["held"] is not None:
            s.admin_cmd("RESUME", o); s.still_held_window("c0")
        s.admin_cmd("RESUME", kind)
        s = S("global PAUSE, per-pool RESUME releases that pool only [%s]" % kind)
        s.connect("c0", kind); s.connect("c1", o); s.admin_cmd("PAUSE", None); s.stmt("c0", "ext"); s.stmt("c1", "plain")
        s.admin_cmd("RESUME", kind); s.still_held_window("c1"); s.admin_cmd("RESUME", None)
        s = S("extended-protocol arrival while paused, session holder with extended protocol [%s]" % kind)
        s.connect("c0", kind); s.connect("c1", kind); s.stmt("c1", "ext"); s.admin_cmd("PAUSE", None); s.stmt("c0", "ext"); s.stmt("c1", "ext"); s.admin_cmd("RESUME", None)
    for kind in POOLS:
        o = other(kind)
        s = S("pool removed by a RELOAD and added again by another: PAUSE db,user holds the old session and a new one, RESUME releases [%s]" % kind)
        s.connect("c0", kind); s.reload(removed={kind}); s.reload(removed=set()); s.admin_cmd("PAUSE", kind)
        s.stmt("c0", "plain"); s.connect("c1", kind); s.stmt("c1", "ext"); s.admin_cmd("RESUME", kind); s.stmt("c0", "plain")
        s = S("removed, other reloads in between, added again, replaced: global PAUSE holds the old session [%s]" % kind)
        s.connect("c0", kind); s.connect("c1", o); s.reload(removed={kind}); s.reload(removed={kind}, sizes={o: 7}); s.stmt("c1", "plain")
        s.reload(removed=set(), sizes={o: 7}); s.reload(removed=set(), sizes={o: 7, kind: 5}); s.admin_cmd("PAUSE", None)
        s.stmt("c0", "begin"); s.stmt("c1", "plain"); s.admin_cmd("RESUME", None); s.stmt("c0", "commit")
        s = S("old session that had finished a transaction before its pool was removed and added again is held by PAUSE [%s]" % kind)
        s.connect("c0", kind); s.stmt("c0", "plain")
        if session_mode(kind):
            s.connect("c2", kind)            # a session client keeps its server: use a second session without one as the held party
        s.reload(removed={kind}); s.reload(removed=set()); s.admin_cmd("PAUSE", kind)
        s.stmt("c2" if session_mode(kind) else "c0", "plain"); s.stmt("c0", "plain") if session_mode(kind) else None
        s.admin_cmd("RESUME", kind)
        s = S("pool removed and not added again: the old session is told 'No pool configured', it is not held; other pools unaffected [%s]" % kind)
        s.connect("c0", kind); s.connect("c1", o); s.admin_cmd("PAUSE", None); s.reload(removed={kind})
        s.stmt("c0", "plain"); s.stmt("c1", "plain"); s.admin_cmd("RESUME", None)
        s = S("paused pool removed while a session waits: the session is released at once [%s]" % kind)
        s.connect("c0", kind); s.admin_cmd("PAUSE", kind); s.stmt("c0", "plain"); s.reload(removed={kind})
    for kind in POOLS:
        o = other(kind)
        for ext in (False, True):
            for scope in (None, kind):
                s = S("pipelined: %d %s in one TCP write, PAUSE %s acknowledged while the first runs [%s]"
                      % (3 if not ext else 2, "extended batches" if ext else "simple queries", "(all)" if scope is None else "db,user", kind))
                s.connect("c0", kind); s.connect("c1", kind)
                s.pipeline("c0", 2 if ext else 3, ext, scope)
                s.stmt("c1", "custom"); s.stmt("c1", "plain")
                s.admin_cmd("RESUME", scope); s.stmt("c0", "plain")
        s = S("Parse, Bind, Execute, Flush in one write and the Sync later: held as a whole while paused [%s]" % kind)
        s.connect("c0", kind); s.connect("c1", kind); s.stmt("c1", "extflush"); s.admin_cmd("PAUSE", kind)
        s.stmt("c0", "extflush"); s.stmt("c1", "extflush"); s.admin_cmd("RESUME", kind); s.stmt("c0", "extflush")
        s = S("custom commands are answered at once while the pool is paused, the next statement is held [%s]" % kind)
        s.connect("c0", kind); s.connect("c1", kind); s.stmt("c1", "begin"); s.admin_cmd("PAUSE", kind)
        s.stmt("c0", "custom"); s.stmt("c0", "custom"); s.stmt("c1", "custom"); s.stmt("c0", "custom"); s.stmt("c0", "plain"); s.stmt("c1", "commit")
        s.admin_cmd("RESUME", kind)
        s = Script("a RELOAD that is refused (it would drop the paused pool, another pool cannot be built) changes nothing: held clients stay held until RESUME [%s]" % kind, mutant, validate=True)
        out.append(s)
        s.connect("c0", kind); s.connect("c1", kind); s.admin_cmd("PAUSE", kind); s.stmt("c0", "plain")
        s.refused_reload(drop=kind, fail=o); s.stmt("c1", "ext"); s.admin_cmd("RESUME", kind); s.stmt("c0", "plain")
    for i in range(nrandom):
        out.append(random_script(rng, i, mutant))
    return out


def random_script(rng, i, mutant=None):
    s = Script("random walk %d" % i, mutant)
    kinds = [rng.choice(list(POOLS)) for _ in range(3)]
    for j, k in enumerate(kinds):
        s.connect("c%d" % j, k)
    windows = 0
    for _ in range(rng.randint(6, 11)):
        r = rng.random()
        if r < 0.3:
            scope = rng.choice([None] + kinds)
            verb = "RESUME" if any(s.paused.values()) and rng.random() < 0.6 else "PAUSE"
            s.admin_cmd(verb, scope)
        else:
            free = [c for c in s.cl if s.can_send(c)]
            if not free:
                s.admin_cmd("RESUME", None); continue
            c = rng.choice(free)
            st = s.cl[c]
            if st["txn"]:
                what = rng.choice(["in", "commit", "commit"])
            else:
                what = rng.choice(["plain", "plain", "ext", "begin", "extflush", "custom"])
            if (not st["server"]) and s.paused[st["kind"]]:
                if windows >= 3:
                    continue
                windows += 1
            s.stmt(c, what)
    s.admin_cmd("RESUME", None)
    for c, st in s.cl.items():
        if st["txn"]:
            s.stmt(c, "commit")
    return s


# ----------------------------------------------------------------------------- observation, monitor, model

def observe(meta, res):
    """per statement: when it reached a backend, whether the client was answered, the window outcome"""
    ev = res.get("events", [])
    recvs = {e.get("label"): e for e in ev if e.get("ev") == "recv" and e.get("label")}
    adm, last_sent = {}, None
    labels = {a["label"]: a for a in meta["admin"]}
    # `sent` is logged AFTER the bytes have left, so its seq is not a lower bound of the send instant;
    # the last scripted-side event logged BEFORE it is (steps run one after the other): whatever the
    # backends logged before that event happened before the admin command was sent.
    prev_scripted = -1
    for e in ev:
        scripted = e.get("ev") in ("sent", "recv", "startup_done", "startup_sent") and not str(e.get("who", "")).startswith("b")
        if not str(e.get("who", "")).startswith("adm"):
            if scripted:
                prev_scripted = e["seq"]
            continue
        if e.get("ev") == "sent":
            last_sent = prev_scripted
            prev_scripted = e["seq"]
        elif e.get("ev") == "recv" and e.get("label") in labels:
            prev_scripted = e["seq"]
            frames = e["frames"]
            adm[e["label"]] = {"sent": last_sent, "ack": e["seq"] if e.get("outcome") == "ok" else None,
                               "reply": [str(f.get("tag")) for f in frames if f.get("t") == "C"] + ["E:" + json.dumps(f) for f in frames if f.get("t") == "E"]}
    for a in meta["admin"]:
        adm.setdefault(a["label"], {"sent": None, "ack": None, "reply": []})
    obs = []
    for s in meta["stmts"]:
        be = [e for e in ev if e.get("ev") == "msg" and s["tag"] in str(e.get("detail", {}).get("sql") or "")]
        w, w2, a = recvs.get(s["tag"] + ":window"), recvs.get(s["tag"] + ":window2"), recvs.get(s["tag"] + ":after")

        def answered(r):
            return bool(r) and r.get("outcome") == "ok" and any(f.get("t") == "Z" for f in r["frames"])
        errs = [json.dumps(f) for r in (w, w2, a) if r for f in r["frames"] if f.get("t") == "E"]
        obs.append({"tag": s["tag"], "error": errs[0] if errs else None, "backend": be[0]["who"] if be else None, "backend_seq": be[0]["seq"] if be else None,
                    "window": w.get("outcome") if w else None, "window2": w2.get("outcome") if w2 else None,
                    "answered_in_window": answered(w) or answered(w2), "answered_after": answered(a),
                    "answer_seq": (w["seq"] if answered(w) else w2["seq"] if answered(w2) else a["seq"] if answered(a) else None)})
    return obs, adm


def monitor(meta, res):
    obs, adm = observe(meta, res)
    bad = []
    if res.get("harness_error"):
        return ["harness: %s" % res["harness_error"]], obs, adm
    for a in meta["admin"]:
        if a["verb"] == "RELOAD_REFUSED":
            if "RELOAD" in adm[a["label"]]["reply"]:
                bad.append("harness: the RELOAD that was meant to be refused was applied")
            continue
        if adm[a["label"]]["ack"] is None or a["verb"] not in " ".join(adm[a["label"]]["reply"]):
            bad.append("harness: admin `%s` was not acknowledged: %s" % (a["sql"], adm[a["label"]]["reply"]))
    for s, o in zip(meta["stmts"], obs):
        if s.get("nopool"):
            if o["backend_seq"] is not None:
                bad.append("(w-iv) %s: the session's pool %s is no longer configured, yet its statement reached backend %s" % (s["tag"], POOLS[s["kind"]][0], o["backend"]))
            elif not (o["error"] and "No pool configured" in o["error"]):
                bad.append("(w-iv) %s: the session's pool %s is no longer configured: it must be told so, not held (window %s, error %s)" % (s["tag"], POOLS[s["kind"]][0], o["window"], o["error"]))
            continue
        if s.get("custom"):
            if o["backend_seq"] is not None or not o["answered_in_window"]:
                bad.append("(w-v) %s: a custom command (%s) is answered by pgcat itself at once, paused or not (window %s, backend %s)"
                           % (s["tag"], "pool paused" if s["paused_at_send"] else "pool not paused", o["window"], o["backend"]))
            continue
        if s["needs_checkout"] and s["paused_at_send"]:
            rel = adm.get(s["released_by"]) if s["released_by"] else None
            rs = rel["sent"] if rel else None
            if o["backend_seq"] is not None and (rel is None or (rs is not None and o["backend_seq"] < rs)):
                bad.append("(w-i) %s: `%s` of client %s needed a checkout while pool %s was paused and reached backend %s before any RESUME of that pool was sent"
                           % (s["tag"], s["what"], s["c"], POOLS[s["kind"]][0], o["backend"]))
            elif o["answered_in_window"]:
                bad.append("(w-i) %s: answered while the pool was paused" % s["tag"])
            if rel is not None and s.get("released_by_removal"):
                if not (o["answered_after"] and o["error"] and "No pool configured" in o["error"] and o["backend_seq"] is None):
                    bad.append("(w-ii) %s: held by PAUSE; the RELOAD that removed its pool must release it into the 'No pool configured' error (answered %s, error %s, backend %s)"
                               % (s["tag"], o["answered_after"], o["error"], o["backend"]))
            elif rel is not None and not (o["backend_seq"] is not None and o["answered_after"]):
                bad.append("(w-ii) %s: held by PAUSE, but after `%s` it %s" % (s["tag"], [a["sql"] for a in meta["admin"] if a["label"] == s["released_by"]][0],
                                                                          "never reached a backend" if o["backend_seq"] is None else "was not answered"))
        else:
            if not (o["backend_seq"] is not None and o["answered_in_window"]):
                why = "belongs to a running transaction" if (not s["needs_checkout"] and not session_mode(s["kind"])) else \
                      "comes from a session client that holds its server" if not s["needs_checkout"] else "was sent while the pool was not paused"
                bad.append("(w-iii) %s: `%s` of client %s %s, yet it was not served (window %s)" % (s["tag"], s["what"], s["c"], why, o["window"]))
    return bad, obs, adm


def model_codes(metas, name="c16_wire", fn="rtrace_codes"):
    cases, idx = [], []
    for i, m in enumerate(metas):
        for k in POOLS:
            if m["model"][k]:
                cases.append("(%s %d [%s])" % (fn, max(1, m["nclients"][k]), "; ".join(m["model"][k]))); idx.append((i, k, None))
        for j, st in enumerate(m["stmts"]):
            if st.get("nopool"):
                cases.append("(rtrace_codes %d [%s])" % (max(1, m["nclients"][st["kind"]]), "; ".join(st["prefix"] + ["Base (CReg %d)" % st["m"]]))); idx.append((i, st["kind"], j))
    vals = vlib.coq_eval(name, PREAMBLE, cases, shard=400)
    out = [dict() for _ in metas]
    for (i, k, j), v in zip(idx, vals):
        if j is None:
            out[i][k] = vlib.parse_coq(v)
        else:
            out[i][("nopool", j)] = vlib.parse_coq(v)
    return out


def compare(meta, obs, codes, index_of):
    """model verdict (blocked / past the gate) at each statement's CDecide and CWake vs the observation"""
    diffs = []
    for j, (s, o) in enumerate(zip(meta["stmts"], obs)):
        if s.get("nopool"):
            tr = codes.get(("nopool", j), [None])
            refused = tr[-1] == [] and all(r for r in tr[:-1])
            told = bool(o["error"]) and "No pool configured" in o["error"] and o["backend_seq"] is None
            if refused != told:
                diffs.append("%s: model %s the lookup of the session's pool, observed %s" % (s["tag"], "refuses" if refused else "accepts", "the error reply" if told else "no error reply"))
            continue
        if s.get("custom"):
            continue                      # no model step: judged by the monitor (w-v) only
        tr = codes.get(s["kind"], [])
        m = index_of[s["kind"]][s["c"]]
        observed_held = (o["backend_seq"] is None or not o["answered_in_window"]) and o["window"] == "timeout"
        if s["pos"] is None:
            model_held = False            # no gate step in the model: the statement does not pass the gate at all
        else:
            row = tr[s["pos"]] if s["pos"] < len(tr) else []
            if not row:
                diffs.append("%s: the model cannot execute the schedule at step %d" % (s["tag"], s["pos"])); continue
            model_held = row[2 + m] == 4
            if row[2 + m] not in (4, 5):
                diffs.append("%s: model pc code %s after CDecide" % (s["tag"], row[2 + m]))
        if model_held != observed_held:
            diffs.append("%s (%s of %s on %s): model says %s, observed %s" % (s["tag"], s["what"], s["c"], POOLS[s["kind"]][0],
                         "held" if model_held else "not held", "held" if observed_held else "served"))
        if s["pos_after"] is not None:
            row = tr[s["pos_after"]] if s["pos_after"] < len(tr) else []
            model_rel = bool(row) and row[2 + m] == 5
            if model_rel != bool(o["answered_after"]):
                diffs.append("%s: after RESUME the model says %s, observed %s" % (s["tag"], "past the gate" if model_rel else "not released", "answered" if o["answered_after"] else "not answered"))
    return diffs


def slim(res):
    ev = []
    for e in res.get("events", []):
        if e.get("ev") in ("sent", "recv", "msg"):
            d = {"seq": e.get("seq"), "who": e.get("who"), "ev": e["ev"]}
            if e["ev"] == "sent":
                d["msgs"] = [m.get("sql") or m.get("t") for m in e.get("msgs") or []]
            elif e["ev"] == "recv":
                d.update(label=e.get("label"), outcome=e.get("outcome"), frames=[f.get("t") for f in e["frames"]])
            else:
                d.update(tag=e.get("tag"), sql=e.get("detail", {}).get("sql"), conn=e.get("conn"))
            ev.append(d)
    return ev


def run_leg(run, wire, quick):
    import random
    nrandom = 12 if quick else 150
    scripts = build_all(random.Random(run.seed * 7919 + 16), nrandom)
    t0 = time.time()
    results = WL.run_scenarios(wire, [s.scenario() for s in scripts])
    t1 = time.time()
    metas = [s.meta() for s in scripts]
    codes = model_codes(metas)
    nv = 0
    stats = {"scenarios": len(scripts), "statements": 0, "held": 0, "released": 0, "served_while_paused_by_holder": 0,
             "by_kind": {k: 0 for k in POOLS}, "session_arrivals_held": 0}
    for s, meta, res, cd in zip(scripts, metas, results, codes):
        bad, obs, adm = monitor(meta, res)
        diffs = compare(meta, obs, cd, s.idx) if not res.get("harness_error") else []
        for st, o in zip(meta["stmts"], obs):
            stats["statements"] += 1
            stats["by_kind"][st["kind"]] += 1
            if st["expect_held"] and o["window"] == "timeout":
                stats["held"] += 1
                if session_mode(st["kind"]):
                    stats["session_arrivals_held"] += 1
            if st["released_by"] and o["answered_after"]:
                stats["released"] += 1
            if st["paused_at_send"] and not st["needs_checkout"] and o["answered_in_window"]:
                stats["served_while_paused_by_holder"] += 1
        real = [b for b in bad if not b.startswith("harness:")]
        if real:
            nv += 1
            run.violation("counterexample", "wire: %s — %s" % (meta["name"], real[0]),
                          {"wire_scenario": {"name": meta["name"], "scenario": s.scenario(), "meta": meta}, "monitor": bad, "model_diff": diffs, "events": slim(res)})
        elif bad or diffs:
            nv += 1
            run.violation("tie-broken", "wire: %s — %s" % (meta["name"], (diffs or bad)[0]),
                          {"correspondence": "Pause/Model.v trace_codes vs Client::handle on the wire", "wire_scenario": {"name": meta["name"], "scenario": s.scenario(), "meta": meta},
                           "monitor": bad, "model_diff": diffs, "events": slim(res)}, found_input=False)
        else:
            run.cov["traces_validated_against_impl"] += 1
        if nv >= 3:
            break
    run.log("wire: %d scenarios, %d statements (%d held, %d released, %d session arrivals held), harness %.1fs, coq+judge %.1fs"
            % (stats["scenarios"], stats["statements"], stats["held"], stats["released"], stats["session_arrivals_held"], t1 - t0, time.time() - t1))
    run.cov["wire"] = stats
    run.cov["wire"]["sample"] = {"name": metas[2]["name"], "model_pt": metas[2]["model"]["txn"], "statements": [(x["tag"], x["what"], "held" if x["expect_held"] else "served") for x in metas[2]["stmts"]]}
    return nv, scripts, results


def selftest(run, wire, scripts, results):
    """(a) model mutant: if session-mode arrivals were not gated in the model, the comparison must
       disagree with what pgcat does on every scenario with a held session arrival;
       (b) harness mutant: a script that believes a session pool is paused while the PAUSE on the wire
       addressed another pool — pgcat serves the arrival, the monitor must flag it (this is what a
       Client::handle that skips wait_paused() for session pools looks like from outside)."""
    ok = True
    # (a) re-judge the observed runs against the mutated model
    import random
    twins = build_all(random.Random(run.seed * 7919 + 16), 12 if run.tier == "quick" else 150, mutant="session_arrival_not_gated")
    pick = [(t, s, r) for t, s, r in zip(twins, scripts, results)
            if any(x["expect_held"] and session_mode(x["kind"]) for x in s.stmts) and not r.get("harness_error")]
    pick = pick[:25]
    codes = model_codes([t.meta() for t, _, _ in pick], "c16_wire_mut")
    caught = 0
    for (t, s, r), cd in zip(pick, codes):
        obs, _ = observe(s.meta(), r)
        if compare(t.meta(), obs, cd, t.idx):
            caught += 1
    if not pick or caught != len(pick):
        ok = False
        run.broken.append("wire self-test (a): mutated model (session arrival not gated) escaped on %d of %d scenarios" % (len(pick) - caught, len(pick)))
    # (a') model mutant of the reload layer: the session waits on the pool object it resolved earlier (F36);
    #      on every remove / re-add / PAUSE scenario the stale model must disagree with what pgcat does
    #      (not the "removed and not added again" family: there the old code ends in the same error reply)
    f36 = [(s, r) for s, r in zip(scripts, results) if "added again" in s.name and "not added again" not in s.name and not r.get("harness_error")]
    codes = model_codes([s.meta() for s, _ in f36], "c16_wire_stale", fn="rtrace_codes_stale")
    caught36 = 0
    for (s, r), cd in zip(f36, codes):
        obs, _ = observe(s.meta(), r)
        if compare(s.meta(), obs, cd, s.idx):
            caught36 += 1
    if not f36 or caught36 != len(f36):
        ok = False
        run.broken.append("wire self-test (a'): the stale-lookup model (F36) escaped on %d of %d remove/re-add scenarios" % (len(f36) - caught36, len(f36)))
    # (b) harness mutant
    flagged = 0
    muts = []
    for kind in ("spool", "suser"):
        s = Script("self-test: PAUSE not applied to %s" % kind)
        s.connect("c0", kind)
        s.admin_cmd("PAUSE", kind, send_sql="PAUSE pt,u")     # the script believes `kind` is paused
        s.admin[-1]["sql"] = "PAUSE pt,u"
        s.stmt("c0", "plain")
        s.admin_cmd("RESUME", None)
        for st in s.steps:
            if str(st.get("label", "")).endswith(":after"):
                st["timeout_ms"] = 300      # nothing will come: the statement was already answered
        muts.append(s)
    res = WL.run_scenarios(wire, [s.scenario() for s in muts])
    for s, r in zip(muts, res):
        bad, _, _ = monitor(s.meta(), r)
        if any(b.startswith("(w-i)") for b in bad):
            flagged += 1
    if flagged != len(muts):
        ok = False
        run.broken.append("wire self-test (b): a session-mode arrival served while the script's pool was 'paused' was not flagged (%d/%d)" % (flagged, len(muts)))
    # (c) the round-4 families: each must be able to fail
    muts2, wants = [], []
    s = Script("self-test: pipelined statements after a PAUSE that went to another pool")
    s.connect("c0", "txn"); s.pipeline("c0", 3, False, "txn", send_sql="PAUSE ps,u"); s.admin_cmd("RESUME", None)
    muts2.append(s); wants.append("(w-i)")
    s = Script("self-test: a statement that needs a server passed off as a custom command while paused")
    s.connect("c0", "txn"); s.admin_cmd("PAUSE", "txn"); s.stmt("c0", "custom")
    s.steps[-2]["msgs"][0]["sql"] = "SELECT 'not_a_command'"; s.steps[-1]["timeout_ms"] = WINDOW_MS
    s.admin_cmd("RESUME", "txn")
    muts2.append(s); wants.append("(w-v)")
    s = Script("self-test: the reload that should be refused is applied (it drops and resumes the paused pool)", validate=True)
    s.connect("c0", "txn"); s.admin_cmd("PAUSE", "txn"); s.stmt("c0", "plain"); s.refused_reload(drop="txn", fail="spool", really=False)
    for st in s.steps:
        if str(st.get("label", "")).endswith(":after"):
            st["timeout_ms"] = 300
    muts2.append(s); wants.append("(w-i)")
    res2 = WL.run_scenarios(wire, [s.scenario() for s in muts2])
    flagged2 = 0
    for s, r, wnt in zip(muts2, res2, wants):
        bad, _, _ = monitor(s.meta(), r)
        if any(b.startswith(wnt) for b in bad):
            flagged2 += 1
        else:
            ok = False
            run.broken.append("wire self-test (c): %s was not flagged with %s (monitor: %s)" % (s.name, wnt, bad))
    # model mutant: a pipelined statement is not a new gate passage ("stays on the same server")
    twins2 = build_all(random.Random(run.seed * 7919 + 16), 0, mutant="pipelined_keeps_server")
    pp = [(t, s, r) for t, s, r in zip(twins2, scripts, results) if s.name.startswith("pipelined") and "[txn]" in s.name and not r.get("harness_error")]
    codes = model_codes([t.meta() for t, _, _ in pp], "c16_wire_pipe")
    caughtp = sum(1 for (t, s, r), cd in zip(pp, codes) if compare(t.meta(), observe(s.meta(), r)[0], cd, t.idx))
    if not pp or caughtp != len(pp):
        ok = False
        run.broken.append("wire self-test (c): the model mutant 'pipelined statement keeps the server' escaped on %d of %d scenarios" % (len(pp) - caughtp, len(pp)))
    run.cov["wire_selftest_round4"] = {"harness_mutants": len(muts2), "flagged": flagged2, "pipelining_model_mutant_scenarios": len(pp), "caught": caughtp}
    run.cov["wire_selftest"] = {"model_mutant_scenarios": len(pick), "model_mutant_caught": caught, "stale_lookup_model_scenarios": len(f36), "stale_lookup_model_caught": caught36, "harness_mutant_scenarios": len(muts), "harness_mutant_flagged": flagged, "ok": ok}
    return ok


def replay(run, wire, r):
    w = r["wire_scenario"]
    res = WL.run_scenario(wire, w["scenario"])
    bad, obs, adm = monitor(w["meta"], res)
    for e in slim(res):
        print("  ", json.dumps(e))
    for s, o in zip(w["meta"]["stmts"], obs):
        print("  %-8s %-7s needs_checkout=%-5s paused=%-5s -> window=%s backend_seq=%s answered_after=%s" % (s["tag"], s["what"], s["needs_checkout"], s["paused_at_send"], o["window"], o["backend_seq"], o["answered_after"]))
    print("monitor:", bad or "ok")
    return 1 if bad else 0
