"""C16 — PAUSE holds new transactions and RESUME releases every one of them.

P: coq/Pause/{Model,Proofs,Mutants,Props}.v — interleaving model of the pause gate
   (paused flag + tokio Notify generation counter), theorems for every step sequence and any
   number of clients.
T2: harness bin `pause` drives the REAL ConnectionPool::{pause,resume,paused,wait_paused} under
   every schedule of the model for a bounded set of actors (hook points of pgcat::verif_hooks give
   the harness control of the interleaving); after every step the observed status of every client
   is compared with the Coq model evaluated (vm_compute) on the same schedule, and the property's
   own two statements are evaluated directly on the observed trace (monitor, model-free).
   Plus free-running races (hooks disarmed, multi-thread tokio runtime) with a stuck detector.

Schedule format (JSON, also the replay format; `@k` selects a pool, default 0):
   {"clients": 2, "pools": 1, "steps": ["admin:pause", "c0:reg", "c0:load", "admin:store", ...]}
"""
import itertools, json, os, subprocess, sys, time
from concurrent.futures import ThreadPoolExecutor
import vlib
from props import c16wire

COQ_FILES = ["Pause/Model.v", "Pause/Proofs.v", "Pause/Mutants.v", "Pause/ReloadModel.v", "Pause/ReloadProofs.v", "Pause/Props.v"]
PREAMBLE = "From PV Require Import Pause.Model.\nFrom Coq Require Import List. Import ListNotations."

# ----------------------------------------------------------------------------- python copy of the
# model's step relation (used ONLY to enumerate schedules; every enumerated schedule is re-run in
# Coq and the two traces are compared, so a drift between this copy and Model.v is detected)
I, R, L, W, P = "I", "R", "L", "W", "P"


def m_init(n):
    return (False, 0, False, tuple((I,) for _ in range(n)))


def m_step(st, ev):
    paused, gen, mid, pcs = st
    kind, c = ev
    if kind in ("reg", "load", "decide", "wake", "done"):
        pc = pcs[c]
        if kind == "reg" and pc[0] == I:
            new = (R, gen)
        elif kind == "load" and pc[0] == R:
            new = (L, pc[1], paused)
        elif kind == "decide" and pc[0] == L:
            new = (W, pc[1]) if pc[2] else (P,)
        elif kind == "wake" and pc[0] == W and pc[1] < gen:
            new = (P,)
        elif kind == "done" and pc[0] == P:
            new = (I,)
        else:
            return None
        return (paused, gen, mid, pcs[:c] + (new,) + pcs[c + 1:])
    if kind == "pause" and not mid:
        return (True, gen, mid, pcs)
    if kind == "store" and not mid:
        return (False, gen, True, pcs)
    if kind == "notify" and mid:
        return (paused, gen + 1, False, pcs)
    return None


def m_view_pc(pc, gen):
    if pc[0] == I:
        return "idle"
    if pc[0] == R:
        return "reg"
    if pc[0] == L:
        return "loaded"
    if pc[0] == W:
        return "passed" if pc[1] < gen else "blocked"
    return "passed"


def m_abstract(st, ev):
    """(abstract state, event kind) for transition coverage: only snap<gen matters."""
    paused, gen, mid, pcs = st
    def a(pc):
        if pc[0] in (R, W):
            return (pc[0], pc[1] < gen)
        if pc[0] == L:
            return (L, pc[1] < gen, pc[2])
        return pc
    kind, c = ev
    if c is None:
        return (paused, mid, tuple(sorted(map(a, pcs), key=repr)), kind)
    others = tuple(sorted((a(p) for i, p in enumerate(pcs) if i != c), key=repr))
    return (paused, mid, a(pcs[c]), others, kind)


def tok(ev, pool=None):
    kind, c = ev
    s = ("admin:%s" % kind) if c is None else ("c%d:%s" % (c, kind))
    return s if pool is None else "%s@%d" % (s, pool)


def coq_ev(ev):
    kind, c = ev
    return {"reg": "CReg %d", "load": "CLoad %d", "decide": "CDecide %d", "wake": "CWake %d", "done": "CDone %d"}[kind] % c \
        if c is not None else {"pause": "APause", "store": "AStore", "notify": "ANotify"}[kind]


def enumerate_schedules(n, txs, prog, wake="eager", symmetric=False, limit=None):
    """All maximal interleavings of: n clients doing `txs` transactions each (reg, load, decide,
    [wake], done — the last transaction's `done` is omitted) and one admin console executing
    `prog` (string over P/R; R = store, notify).  wake='eager': CWake fires as soon as enabled
    (what the real task does on its own); wake='free': CWake is scheduled like any other step.
    symmetric=True keeps one representative per permutation of the clients (first steps ordered)."""
    admin = []
    for ch in prog:
        admin += [("pause", None)] if ch == "P" else [("store", None), ("notify", None)]
    out = []

    def eager(st, sched):
        changed = True
        while changed:
            changed = False
            for c in range(n):
                pc = st[3][c]
                if pc[0] == W and pc[1] < st[1]:
                    st = m_step(st, ("wake", c)); sched = sched + [("wake", c)]; changed = True
        return st, sched

    def rec(st, ai, left, started, sched):
        if limit is not None and len(out) >= limit:
            return
        moved = False
        # admin
        if ai < len(admin):
            s2 = m_step(st, admin[ai])
            if s2 is not None:
                sc2 = sched + [admin[ai]]
                if wake == "eager":
                    s2, sc2 = eager(s2, sc2)
                moved = True
                rec(s2, ai + 1, left, started, sc2)
        for c in range(n):
            pc = st[3][c]
            if pc[0] == I:
                if left[c] == 0:
                    continue
                if symmetric and started < c:
                    continue          # client c may only start after clients 0..c-1 have started
                ev = ("reg", c)
            elif pc[0] == R:
                ev = ("load", c)
            elif pc[0] == L:
                ev = ("decide", c)
            elif pc[0] == W:
                if wake == "eager" or not (pc[1] < st[1]):
                    continue
                ev = ("wake", c)
            else:
                if left[c] == 0:
                    continue          # last transaction: stays past the gate
                ev = ("done", c)
            s2 = m_step(st, ev)
            if s2 is None:
                continue
            sc2 = sched + [ev]
            l2 = left
            st2 = started
            if ev[0] == "reg":
                l2 = left[:c] + (left[c] - 1,) + left[c + 1:]
                st2 = max(started, c + 1)
            if wake == "eager":
                s2, sc2 = eager(s2, sc2)
            moved = True
            rec(s2, ai, l2, st2, sc2)
        if not moved:
            out.append(sched)

    rec(m_init(n), 0, tuple(txs for _ in range(n)), 0, [])
    return out


def random_schedules(n, txs, prog, count, rng):
    """`count` maximal schedules drawn by a random walk over the enabled steps (CWake eager)."""
    admin = []
    for ch in prog:
        admin += [("pause", None)] if ch == "P" else [("store", None), ("notify", None)]
    out = set()
    for _ in range(count):
        st, ai, left, sched = m_init(n), 0, [txs] * n, []
        while True:
            cand = []
            if ai < len(admin) and m_step(st, admin[ai]) is not None:
                cand.append(admin[ai])
            for c in range(n):
                pc = st[3][c]
                if pc[0] == I and left[c] > 0:
                    cand.append(("reg", c))
                elif pc[0] == R:
                    cand.append(("load", c))
                elif pc[0] == L:
                    cand.append(("decide", c))
                elif pc[0] == W and pc[1] < st[1]:
                    cand = [("wake", c)]; break
                elif pc[0] == P and left[c] > 0:
                    cand.append(("done", c))
            if not cand:
                break
            e = rng.choice(cand)
            st = m_step(st, e); sched.append(e)
            if e[1] is None:
                ai += 1
            elif e[0] == "reg":
                left[e[1]] -= 1
        out.add(tuple(sched))
    return [list(x) for x in sorted(out)]


# ----------------------------------------------------------------------------- harness driving

def _run_chunk(binp, reqs, timeout=3000):
    inp = "\n".join(json.dumps(r) for r in reqs).encode() + b"\n"
    p = subprocess.run([binp], input=inp, stdout=subprocess.PIPE, stderr=subprocess.PIPE, timeout=timeout)
    lines = p.stdout.decode().splitlines()
    outs = [json.loads(l) for l in lines]
    if p.returncode != 0 or len(outs) != len(reqs):
        fatal = [o for o in outs if o.get("fatal")]
        raise HarnessFailure("pause harness rc=%s, %d/%d answers; stderr: %s" % (p.returncode, len(outs), len(reqs), p.stderr.decode()[-600:]),
                             fatal[0] if fatal else None)
    return outs


class HarnessFailure(Exception):
    def __init__(self, msg, fatal=None):
        Exception.__init__(self, msg)
        self.fatal = fatal


def run_harness(binp, reqs, workers=16):
    if not reqs:
        return []
    size = max(1, (len(reqs) + workers - 1) // workers)
    chunks = [reqs[i:i + size] for i in range(0, len(reqs), size)]
    with ThreadPoolExecutor(max_workers=workers) as ex:
        outs = list(ex.map(lambda ch: _run_chunk(binp, ch), chunks))
    return [r for o in outs for r in o]


# ----------------------------------------------------------------------------- monitor (model-free)

def parse_tok(t):
    head, _, k = t.partition("@")
    actor, _, op = head.partition(":")
    return actor, op, (int(k) if k else 0)


def monitor(req, ans):
    """The property's statements evaluated on the observed trace only.
    (i)  a client whose wait_paused() completed did so after `paused` was observed false at some
         instant since it registered;
    (ii) whenever paused == false and no resume is half done, no client is blocked in wait_paused();
    (iii) a client past the gate stays there until its own `done` (running transactions untouched).
    Returns a list of violation strings."""
    n = req["clients"]
    bad = []
    pool_of = [None] * n
    seen_unpaused = [False] * n
    prev = ["idle"] * n
    steps = ans["trace"] + [{"step": "final", "ok": True, "obs": ans["final"]}]
    admin_pool = None
    for rec in steps:
        if not rec.get("ok"):
            break       # a step the implementation could not execute as scheduled: nothing after it is a valid observation
        obs = rec["obs"]
        st = rec["step"]
        actor, op, k = parse_tok(st) if ":" in st else (None, None, 0)
        if rec.get("ok") and actor and actor != "admin" and op in ("reg", "load") and prev[int(actor[1:])] == "idle":
            c = int(actor[1:]); pool_of[c] = k; seen_unpaused[c] = False     # a new wait_paused() call starts
        if rec.get("ok") and actor == "admin":
            admin_pool = k
        for c in range(n):
            now = obs["clients"][c]
            if pool_of[c] is not None and (now in ("reg", "preloaded", "loaded", "blocked") or (now == "passed" and prev[c] != "passed")):
                if not obs["paused"][pool_of[c]]:
                    seen_unpaused[c] = True
            if now == "passed" and prev[c] != "passed" and not seen_unpaused[c]:
                bad.append("(i) client %d got past the gate at step %r although paused was true at every observed instant since it registered" % (c, st))
            if now == "blocked":
                k2 = pool_of[c]
                mid_here = obs["admin_mid"] and admin_pool == k2
                if not obs["paused"][k2] and not mid_here:
                    bad.append("(ii) client %d is blocked in wait_paused() after step %r although paused == false and no resume is in flight" % (c, st))
            if prev[c] == "passed" and now != "passed" and not (actor == "c%d" % c and op == "done"):
                bad.append("(iii) client %d left the transaction state at step %r" % (c, st))
            if now == "running":
                bad.append("harness: client %d did not settle at step %r" % (c, st))
            prev[c] = now
    return bad


# ----------------------------------------------------------------------------- model evaluation

VMAP = {"VIdle": "idle", "VReg": "reg", "VBlocked": "blocked", "VPassed": "passed"}


def model_traces(name, cases):
    """cases: list of (n, [events]).  Returns per case a list of per-step views
    (paused, mid, [status], [loaded_p or None]) or None where the model rejects the step."""
    exprs = ["(trace_codes %d [%s])" % (n, "; ".join(coq_ev(e) for e in evs)) for n, evs in cases]
    vals = vlib.coq_eval(name, PREAMBLE, exprs, shard=400)
    code = {0: "idle", 1: "reg", 2: "loaded", 3: "loaded", 4: "blocked", 5: "passed"}
    res = []
    for v in vals:
        steps = []
        for x in vlib.parse_coq(v):
            if not x:
                steps.append(None); continue
            steps.append((x[0] == 1, x[1] == 1, [code[p] for p in x[2:]], [(p == 3) if p in (2, 3) else None for p in x[2:]]))
        res.append(steps)
    return res


def project(req):
    """Split a (possibly multi-pool) schedule into one model schedule per pool.
    Returns {pool: [(global_step_index, event)]}, and per step the pool it belongs to."""
    n = req["clients"]
    cur = [0] * n
    per = {k: [] for k in range(req.get("pools", 1))}
    where = []
    for i, t in enumerate(req["steps"]):
        actor, op, k = parse_tok(t)
        if actor == "admin":
            per[k].append((i, (op, None))); where.append(k)
        else:
            c = int(actor[1:])
            if op == "reg":
                cur[c] = k
            per[cur[c]].append((i, (op, c))); where.append(cur[c])
    return per, where


def compare(req, ans, mtraces):
    """Diff the harness trace against the per-pool model traces.  Returns list of strings."""
    n = req["clients"]
    per, where = project(req)
    diffs = []
    # position of each global step within its pool's model trace
    pos = {}
    for k, lst in per.items():
        for j, (gi, ev) in enumerate(lst):
            pos[gi] = (k, j)
    cur_pool = [None] * n
    last_p = [None] * n
    hsteps = ans["trace"][1:]
    for gi, t in enumerate(req["steps"]):
        k, j = pos[gi]
        mt = mtraces[k]
        mv = mt[j] if j < len(mt) else None
        if gi >= len(hsteps):
            diffs.append("step %d (%s): harness stopped early (%s)" % (gi, t, ans.get("error")))
            break
        h = hsteps[gi]
        actor, op, _ = parse_tok(t)
        if actor != "admin" and op == "reg":
            cur_pool[int(actor[1:])] = k
        if mv is None:
            if h["ok"]:
                diffs.append("step %d (%s): not enabled in the model, executed by the implementation" % (gi, t))
            break
        if not h["ok"]:
            diffs.append("step %d (%s): enabled in the model, implementation says %s" % (gi, t, h.get("err")))
            break
        paused, mid, stt, lp = mv
        o = h["obs"]
        if o["paused"][k] != paused:
            diffs.append("step %d (%s): paused() = %s, model %s" % (gi, t, o["paused"][k], paused))
        for c in range(n):
            if cur_pool[c] != k:
                continue
            if lp[c] is not None:
                last_p[c] = lp[c]
            if o["clients"][c] != stt[c]:
                diffs.append("step %d (%s): client %d is %s, model %s" % (gi, t, c, o["clients"][c], stt[c]))
            if o["clients"][c] == "passed" and o["ret"][c] is not None and last_p[c] is not None and o["ret"][c] != last_p[c]:
                diffs.append("step %d (%s): wait_paused() of client %d returned %s, model loaded %s" % (gi, t, c, o["ret"][c], last_p[c]))
        if actor == "admin" and op in ("store", "notify") and o["admin_mid"] != mid:
            diffs.append("step %d (%s): resume half done = %s, model %s" % (gi, t, o["admin_mid"], mid))
    else:
        # bounded "still blocked" observation after the grace period must equal the last view
        if hsteps and ans["final"]["clients"] != hsteps[-1]["obs"]["clients"]:
            diffs.append("after the grace period the clients are %s, right after the last step %s" % (ans["final"]["clients"], hsteps[-1]["obs"]["clients"]))
    return diffs


def check_batch(run, binp, reqs, label, stats):
    """Run requests on the implementation and in Coq, compare, monitor.  Returns #violations."""
    t0 = time.time()
    try:
        answers = run_harness(binp, reqs)
    except HarnessFailure as e:
        if e.fatal is not None:
            run.violation("counterexample", "a client never returned from wait_paused() although resume() was called repeatedly (harness clean-up): %s" % e.fatal.get("error"),
                          {"schedule": "see trace", "impl": e.fatal})
        else:
            run.broken.append(str(e))
        return 1
    t1 = time.time()
    cases, idx = [], []
    for qi, req in enumerate(reqs):
        per, _ = project(req)
        for k in sorted(per):
            cases.append((req["clients"], [ev for _, ev in per[k]])); idx.append((qi, k))
    mt = model_traces("c16_" + label, cases)
    by_req = {}
    for (qi, k), tr in zip(idx, mt):
        by_req.setdefault(qi, {})[k] = tr
    t2 = time.time()
    nviol = 0
    for qi, (req, ans) in enumerate(zip(reqs, answers)):
        stats["schedules"] += 1
        stats["steps"] += len(req["steps"])
        key = (req["clients"], req.get("pools", 1), tuple(req["steps"]))
        stats["distinct"].add(key)
        obs_all = [r["obs"] for r in ans["trace"]]
        if any("blocked" in o["clients"] for o in obs_all) or any(r is True for o in obs_all for r in o["ret"]):
            stats["nontrivial"].add(key)
        if "blocked" in ans["final"]["clients"]:
            stats["final_blocked"] += 1
        if any(r is True for o in obs_all for r in o["ret"]):
            stats["released"] += 1
        bad = monitor(req, ans)
        diffs = compare(req, ans, by_req[qi])
        if ans.get("error"):
            diffs.append("harness error: %s" % ans["error"])
        if bad:
            nviol += 1
            run.violation("counterexample", "%s — schedule %s" % (bad[0], " ".join(req["steps"])),
                          {"schedule": req, "monitor": bad, "model_diff": diffs, "impl_trace": ans})
        elif diffs:
            nviol += 1
            run.violation("tie-broken", "model and implementation disagree: %s — schedule %s" % (diffs[0], " ".join(req["steps"])),
                          {"correspondence": "Pause/Model.v trace_views vs ConnectionPool::{pause,resume,wait_paused}", "schedule": req,
                           "model_diff": diffs, "model_trace": [str(x) for x in by_req[qi].values()], "impl_trace": ans}, found_input=False)
        else:
            run.cov["traces_validated_against_impl"] += 1
        if nviol >= 3:
            break
    run.log("%s: %d schedules, harness %.1fs, coq %.1fs, compare %.1fs" % (label, len(reqs), t1 - t0, t2 - t1, time.time() - t2))
    return nviol


def mk_req(n, evs, grace, pools=1, rid=0):
    return {"mode": "schedule", "id": rid, "clients": n, "pools": pools, "grace_ms": grace, "steps": [tok(e) for e in evs]}


def grace_for(n, evs, g):
    """Grace period only where the model predicts somebody stays blocked (bounded observation)."""
    st = m_init(n)
    for e in evs:
        st = m_step(st, e)
    return g if any(m_view_pc(pc, st[1]) == "blocked" for pc in st[3]) else 0


MULTIPOOL = [
    # PAUSE db0 only: clients of pool 1 are not held
    {"clients": 2, "pools": 2, "steps": ["admin:pause@0", "c0:reg@0", "c1:reg@1", "c0:load", "c1:load", "c0:decide", "c1:decide", "admin:store@0", "admin:notify@0", "c0:wake"]},
    # global PAUSE = pause every pool in turn; global RESUME = resume every pool in turn (admin.rs `for (_, pool) in get_all_pools()`)
    {"clients": 2, "pools": 2, "steps": ["admin:pause@0", "c1:reg@1", "admin:pause@1", "c0:reg@0", "c0:load", "c1:load", "c0:decide", "c1:decide",
                                          "admin:store@0", "admin:notify@0", "c0:wake", "admin:store@1", "admin:notify@1"]},
    # RESUME of the other pool does not release
    {"clients": 2, "pools": 2, "steps": ["admin:pause@0", "admin:pause@1", "c0:reg@0", "c0:load", "c0:decide", "admin:store@1", "admin:notify@1", "c1:reg@1", "c1:load", "c1:decide"]},
    # a client moves from one pool to the other between transactions
    {"clients": 1, "pools": 2, "steps": ["admin:pause@1", "c0:reg@0", "c0:load", "c0:decide", "c0:done", "c0:reg@1", "c0:load", "c0:decide", "admin:store@1", "admin:notify@1", "c0:wake"]},
]


def transitions_total(n):
    """All (abstract state, event) pairs reachable with n clients and an unrestricted console."""
    seen_states, trans = set(), set()
    def norm(st):
        paused, gen, mid, pcs = st
        def a(pc):
            if pc[0] in (R, W):
                return (pc[0], 0 if pc[1] < gen else 1)
            if pc[0] == L:
                return (L, 0 if pc[1] < gen else 1, pc[2])
            return pc
        return (paused, 1, mid, tuple(a(p) for p in pcs))
    todo = [norm(m_init(n))]
    seen_states.add(todo[0])
    evs = [(k, None) for k in ("pause", "store", "notify")] + [(k, c) for c in range(n) for k in ("reg", "load", "decide", "wake", "done")]
    while todo:
        st = todo.pop()
        for e in evs:
            s2 = m_step(st, e)
            if s2 is None:
                continue
            trans.add(m_abstract(st, e))
            s2 = norm(s2)
            if s2 not in seen_states:
                seen_states.add(s2); todo.append(s2)
    return trans


def transition_cover(n):
    """For every reachable (abstract state, event) pair of the n-client model a shortest schedule
    that ends with that event (model-guided BFS, seed independent)."""
    def norm(st):
        paused, gen, mid, pcs = st
        def a(pc):
            if pc[0] in (R, W):
                return (pc[0], 0 if pc[1] < gen else 1)
            if pc[0] == L:
                return (L, 0 if pc[1] < gen else 1, pc[2])
            return pc
        return (paused, 1, mid, tuple(a(p) for p in pcs))
    evs = [(k, None) for k in ("pause", "store", "notify")] + [(k, c) for c in range(n) for k in ("reg", "load", "decide", "wake", "done")]
    start = norm(m_init(n))
    path = {start: []}
    todo = [start]
    out = {}
    while todo:
        nxt = []
        for st in todo:
            for e in evs:
                s2 = m_step(st, e)
                if s2 is None:
                    continue
                out.setdefault(m_abstract(st, e), path[st] + [e])
                s2 = norm(s2)
                if s2 not in path:
                    path[s2] = path[st] + [e]; nxt.append(s2)
        todo = nxt
    return list(out.values())


SELFTEST = [
    # (impl, steps, monitor clause that must fire) — the witnesses of Pause/Mutants.v on real tokio Notify
    ("mutant_load_first", ["admin:pause", "c0:load", "admin:store", "admin:notify", "c0:reg", "c0:decide"], "(ii)"),
    ("mutant_notify_first", ["admin:pause", "admin:notify", "c0:reg", "c0:load", "admin:store", "c0:decide"], "(ii)"),
    ("mutant_notify_first", ["admin:pause", "c0:reg", "c0:load", "c0:decide", "admin:notify"], "(i)"),
    # the same protocol order as pgcat, written in the harness: must be clean on the analogous schedules
    ("reference", ["admin:pause", "c0:reg", "c0:load", "admin:store", "admin:notify", "c0:decide"], None),
    ("reference", ["admin:pause", "c0:reg", "c0:load", "c0:decide", "admin:store", "admin:notify"], None),
]


def selftest(run, binp):
    """The harness and the monitor must SEE a lost wake-up / an early release when there is one."""
    reqs = [{"mode": "schedule", "id": i, "clients": 1, "pools": 1, "grace_ms": 50, "impl": impl, "steps": steps}
            for i, (impl, steps, _) in enumerate(SELFTEST)]
    answers = _run_chunk(binp, reqs)
    ok = True
    for (impl, steps, want), req, ans in zip(SELFTEST, reqs, answers):
        bad = monitor(req, ans)
        fired = any(b.startswith(want) for b in bad) if want else False
        if ans.get("error") or (want and not fired) or (not want and bad):
            ok = False
            run.broken.append("self-test: %s on %s: monitor says %s, expected %s (error %s)" % (impl, " ".join(steps), bad, want, ans.get("error")))
    run.cov["selftest"] = {"cases": len(SELFTEST), "ok": ok,
                           "what": "Coq mutant witnesses replayed on in-harness mutant gates over the real tokio Notify: the monitor must flag them, and must not flag the reference order"}
    return ok


# ----------------------------------------------------------------------------- admin console level
_G = '[general]\nhost = "127.0.0.1"\nport = 6432\nadmin_username = "admin"\nadmin_password = "admin"\nvalidate_config = false\n'


def _pool(name, port, size=5):
    return ('[pools.%s]\n[pools.%s.users.0]\nusername = "u"\npassword = "pw"\npool_size = %d\n'
            '[pools.%s.shards.0]\ndatabase = "d0"\nservers = [["127.0.0.1", %d, "primary"]]\n' % (name, name, size, name, port))


CFG_A = _G + _pool("db1", 1) + _pool("db2", 2)
CFG_B = _G + _pool("db1", 3) + _pool("db2", 2)        # db1's primary moved


def _conn(i, db):
    return {"op": "connect", "client": i, "db": db, "user": "u"}


def _q(i):
    return {"op": "query", "client": i}


def _adm(sql):
    return {"op": "admin", "sql": sql}


CFG_C = _G + _pool("db2", 2)                           # db1 removed

# name, ops, [(index of op, {client: status}, {pool: paused})] checked right after that op, final {client: status},
# id of the finding this scenario is the regression case of (None: plain property statement)
ADMIN_SCENARIOS = [
    ("PAUSE db,user holds that pool only; RESUME db,user releases",
     [{"op": "config", "toml": CFG_A}, _conn(0, "db1"), _conn(1, "db2"), _adm("PAUSE db1,u"), _q(0), _q(1), _adm("RESUME db2,u"), _adm("RESUME db1,u")],
     [(3, {}, {"u@db1": True, "u@db2": False}), (5, {0: "blocked", 1: "passed"}, {}), (6, {0: "blocked"}, {"u@db1": True})], {0: "passed", 1: "passed"}, None),
    ("PAUSE (all pools) holds every pool; RESUME releases every held client",
     [{"op": "config", "toml": CFG_A}, _conn(0, "db1"), _conn(1, "db2"), _conn(2, "db1"), _adm("pause;"), _q(0), _q(1), _adm("RESUME"), _q(2)],
     [(4, {}, {"u@db1": True, "u@db2": True}), (6, {0: "blocked", 1: "blocked"}, {})], {0: "passed", 1: "passed", 2: "passed"}, None),
    ("PAUSE of an unknown pool pauses nothing",
     [{"op": "config", "toml": CFG_A}, _conn(0, "db1"), _adm("PAUSE nodb,u"), _adm("PAUSE db1"), _q(0)],
     [(3, {}, {"u@db1": False, "u@db2": False})], {0: "passed"}, None),
    ("RELOAD of an unchanged configuration while paused keeps the pause; RESUME releases",
     [{"op": "config", "toml": CFG_A}, _conn(0, "db1"), _conn(1, "db1"), _adm("PAUSE"), _q(0), _adm("RELOAD"), _q(1), _adm("RESUME")],
     [(5, {}, {"u@db1": True}), (6, {0: "blocked", 1: "blocked"}, {})], {0: "passed", 1: "passed"}, None),
    # regression of C16-RELOAD-WHILE-PAUSED (fixed: the rebuilt pool shares the pause flag and the Notify)
    ("PAUSE; RELOAD with db1's server changed; RESUME: the held session and a session whose first query comes after RESUME both proceed; the pause survives the RELOAD",
     [{"op": "config", "toml": CFG_A}, _conn(0, "db1"), _conn(1, "db1"), _conn(2, "db2"), _adm("PAUSE"), _q(0),
      {"op": "write_config", "toml": CFG_B}, _adm("RELOAD"), _adm("RESUME"), _q(1), _q(2)],
     [(7, {0: "blocked"}, {"u@db1": True, "u@db2": True}), (8, {0: "passed"}, {"u@db1": False})], {0: "passed", 1: "passed", 2: "passed"}, "C16-RELOAD-WHILE-PAUSED"),
    ("RELOAD with db1's server changed, then PAUSE: a session that still holds the old pool object is held, RESUME releases it",
     [{"op": "config", "toml": CFG_A}, _conn(0, "db1"), {"op": "write_config", "toml": CFG_B}, _adm("RELOAD"), _adm("PAUSE"), _q(0), _adm("RESUME")],
     [(5, {0: "blocked"}, {"u@db1": True})], {0: "passed"}, "C16-RELOAD-WHILE-PAUSED"),
    ("PAUSE; RELOAD (db1 changed); a NEW session on db1 is held too; RESUME db1,u releases old and new sessions",
     [{"op": "config", "toml": CFG_A}, _conn(0, "db1"), _adm("PAUSE db1,u"), _q(0), {"op": "write_config", "toml": CFG_B}, _adm("RELOAD"), _conn(1, "db1"), _q(1), _adm("RESUME db1,u")],
     [(7, {0: "blocked", 1: "blocked"}, {"u@db1": True})], {0: "passed", 1: "passed"}, "C16-RELOAD-WHILE-PAUSED"),
]
# regression of C16-POOL-REMOVED-WHILE-PAUSED (fixed: from_config resumes the pools it drops)
ADMIN_SCENARIOS += [
    ("PAUSE; RELOAD that removes pool db1; RESUME: a session of db1 that sends a query is not held (it goes on to the 'No pool configured' error), db2 unaffected",
     [{"op": "config", "toml": CFG_A}, _conn(0, "db1"), _conn(1, "db2"), _adm("PAUSE"), {"op": "write_config", "toml": CFG_C}, _adm("RELOAD"), _adm("RESUME"), _q(0), _q(1)],
     [(5, {}, {"u@db2": True, "u@db1": None})], {0: "nopool", 1: "passed"}, "C16-POOL-REMOVED-WHILE-PAUSED"),
    ("PAUSE; a session of db1 is held; RELOAD that removes pool db1 releases it at once; PAUSE db1,u / RESUME db1,u are refused afterwards",
     [{"op": "config", "toml": CFG_A}, _conn(0, "db1"), _adm("PAUSE"), _q(0), {"op": "write_config", "toml": CFG_C}, _adm("RELOAD"), _adm("PAUSE db1,u")],
     [(3, {0: "blocked"}, {}), (5, {0: "passed"}, {"u@db1": None})], {0: "passed"}, "C16-POOL-REMOVED-WHILE-PAUSED"),
]


CFG_A2 = _G + _pool("db1", 1) + _pool("db2", 4)       # db1 back as it was, db2's server changed
# regression of F36-readded-user-session-not-held (fixed: the session looks its pool up before it waits)
F36_OPS = [{"op": "config", "toml": CFG_A}, _conn(0, "db1"), {"op": "write_config", "toml": CFG_C}, _adm("RELOAD"),
           {"op": "write_config", "toml": CFG_A2}, _adm("RELOAD"), {"op": "write_config", "toml": CFG_B}, _adm("RELOAD"),
           _adm("PAUSE db1,u"), _q(0), _conn(1, "db1"), _q(1), _adm("RESUME db1,u")]
ADMIN_SCENARIOS += [
    ("pool db1 removed by a RELOAD, added again by another (and replaced by a third): PAUSE db1,u holds the OLD session's statement and a new session's, RESUME releases both",
     F36_OPS, [(9, {0: "blocked"}, {"u@db1": True}), (11, {0: "blocked", 1: "blocked"}, {})], {0: "passed", 1: "passed"}, "F36-readded-user-session-not-held"),
]


_QUERY = "Base (CReg %d); Base (CLoad %d); Base (CDecide %d)"
_RESUME = "Base AStore; Base ANotify"
# scenario name prefix -> (number of db1 sessions, schedule of Pause.ReloadModel for pool db1)
RELOAD_MODEL = {
    "PAUSE; RELOAD with db1's server changed; RESUME:": (2, "[Base APause; %s; ReloadShared; %s; Base (CWake 0); Refresh 0; %s]" % (_QUERY % (0, 0, 0), _RESUME, _QUERY % (1, 1, 1))),
    "RELOAD with db1's server changed, then PAUSE:": (1, "[ReloadShared; Base APause; %s; %s; Base (CWake 0)]" % (_QUERY % (0, 0, 0), _RESUME)),
    "PAUSE; RELOAD (db1 changed); a NEW session": (2, "[Base APause; %s; ReloadShared; %s; %s; Base (CWake 0); Base (CWake 1)]" % (_QUERY % (0, 0, 0), _QUERY % (1, 1, 1), _RESUME)),
    "pool db1 removed by a RELOAD, added again": (2, "[ReloadRemove; ReloadFresh; ReloadShared; Base APause; %s; %s; %s; Base (CWake 0); Base (CWake 1)]" % (_QUERY % (0, 0, 0), _QUERY % (1, 1, 1), _RESUME)),
    "PAUSE; RELOAD that removes pool db1; RESUME:": (1, "[Base APause; ReloadRemove; %s]" % (_QUERY % (0, 0, 0))),
    "PAUSE; a session of db1 is held; RELOAD that removes": (1, "[Base APause; %s; ReloadRemove; Base (CWake 0)]" % (_QUERY % (0, 0, 0))),
}


def run_admin(binp, tag, ops):
    path = os.path.join(vlib.TMP, "c16")
    os.makedirs(path, exist_ok=True)
    req = {"mode": "admin", "id": tag, "path": os.path.join(path, "admin_%s_%d.toml" % (tag, os.getpid())), "grace_ms": 300, "ops": ops}
    return _run_chunk(binp, [req], timeout=300)[0]


def status_of(obs):
    return {c["client"]: c["status"] for c in obs["clients"]}


def check_admin(run, binp):
    """PAUSE / RESUME / RELOAD through the real admin command handler (pgcat::admin::handle_admin on
    an in-memory stream, real config::parse + ConnectionPool::from_config, validate_config = false so
    no server is needed); sessions as in Client::handle: pool resolved at connect, wait_paused() on
    the pool object the session holds, re-resolved afterwards.  The expectations are the property's
    statements, not a model."""
    todo = ADMIN_SCENARIOS
    with ThreadPoolExecutor(max_workers=8) as ex:
        answers = list(ex.map(lambda t: run_admin(binp, "s%d" % t[0], t[1][1]), list(enumerate(todo))))
    n = 0
    for (name, ops, mids, fin, fid), ans in zip(todo, answers):
        n += 1
        slim = [dict(o, toml="<%d bytes>" % len(o["toml"])) if "toml" in o else o for o in ops]
        bad = []
        for idx, want, wantp in mids:
            obs = ans["trace"][idx]["obs"]
            got = status_of(obs)
            gotp = {p["pool"]: p["paused"] for p in obs["pools"]}
            bad += ["after op %d (%s): client %d is %s, the property says %s" % (idx, json.dumps(slim[idx]), c, got.get(c), w) for c, w in want.items() if got.get(c) != w]
            bad += ["after op %d (%s): SHOW POOLS paused(%s) = %s, expected %s" % (idx, json.dumps(slim[idx]), k, gotp.get(k), w) for k, w in wantp.items() if gotp.get(k) != w]
        got = status_of(ans["final"])
        bad += ["at the end: client %d is %s, the property says %s" % (c, got.get(c), w) for c, w in fin.items() if got.get(c) != w]
        if fid == "C16-POOL-REMOVED-WHILE-PAUSED":
            c0 = [c for c in ans["final"]["clients"] if c["client"] == 0][0]
            if c0.get("pool_still_configured") is not False and c0.get("status") != "nopool":
                bad.append("the session of the removed pool would not get the 'No pool configured' error (get_pool still answers)")
        for prefix, (nm, sched) in RELOAD_MODEL.items():
            if name.startswith(prefix):
                val = vlib.parse_coq(vlib.coq_eval("c16_reload", "From PV Require Import Pause.Model Pause.ReloadModel.\nFrom Coq Require Import List. Import ListNotations.",
                                                   ["(rfinal %d %s)" % (nm, sched)])[0])
                code = {0: "idle", 1: "reg", 2: "loaded", 3: "loaded", 4: "blocked", 5: "passed"}
                gotp = {p["pool"]: p["paused"] for p in ans["final"]["pools"]}
                if not val:
                    # the model refuses the schedule: the session's lookup fails because the pool is gone
                    if [got.get(c) for c in range(nm)] != ["nopool"] * nm or gotp.get("u@db1") is not None:
                        bad.append("Pause.ReloadModel: the lookup of a session whose pool is gone fails; implementation: clients %s, db1 %s" % ([got.get(c) for c in range(nm)], gotp.get("u@db1")))
                elif [code[x] for x in val[1:]] != [got.get(c) for c in range(nm)] or {0: False, 1: True, 2: None}[val[0]] != gotp.get("u@db1"):
                    bad.append("Pause.ReloadModel.rfinal = %s, implementation: clients %s, db1 paused %s" % (val, [got.get(c) for c in range(nm)], gotp.get("u@db1")))
                run.cov["reload_model_scenarios"] = run.cov.get("reload_model_scenarios", 0) + 1
        if not bad:
            run.cov["traces_validated_against_impl"] += 1
            continue
        run.violation("counterexample", "admin console%s: %s — %s" % (" (regression of %s)" % fid if fid else "", name, bad[0]),
                      {"admin_scenario": {"name": name, "ops": ops}, "monitor": bad, "impl_trace": ans})
    # discrimination: the F36 scenario replayed with the call site as it was before the lookup was added
    # (the harness' `stale` query waits on the pool object the session resolved earlier) must show the old session passing
    stale_ops = [dict(o, stale=True) if o.get("op") == "query" and o.get("client") == 0 else o for o in F36_OPS]
    ans = run_admin(binp, "stale", stale_ops)
    got9 = status_of(ans["trace"][9]["obs"])
    run.cov["admin_stale_selftest"] = {"old_session_after_PAUSE": got9.get(0), "expected": "passed (not held)"}
    if got9.get(0) != "passed":
        run.broken.append("admin self-test: with the stale call site the old session of a re-added pool should pass a PAUSE (got %s): the F36 scenario does not discriminate" % got9.get(0))
    run.cov["admin_console_scenarios"] = n
    return n


def order_witnesses(run, binp):
    """The witnesses of the two re-ordering mutants, run against pgcat's own code.  With the correct
    order the harness cannot even start them (the first hook reached is the other one); if /repo's
    code has been re-ordered they execute and the monitor shows the lost wake-up / early release on
    the implementation itself."""
    reqs = [{"mode": "schedule", "id": i, "clients": 1, "pools": 1, "grace_ms": 200, "steps": steps}
            for i, (impl, steps, want) in enumerate(SELFTEST) if want]
    answers = _run_chunk(binp, reqs)
    found = 0
    for req, ans in zip(reqs, answers):
        bad = [b for b in monitor(req, ans) if b.startswith("(i)") or b.startswith("(ii)")]
        if bad:
            found += 1
            run.violation("counterexample", "%s — schedule %s" % (bad[0], " ".join(req["steps"])),
                          {"schedule": req, "monitor": bad, "impl_trace": ans,
                           "note": "pgcat executes the protocol in the order of a mutant that Pause/Mutants.v proves wrong"})
    run.cov["order_witnesses"] = {"run": len(reqs), "executable_on_impl": sum(1 for a in answers if not a.get("error")), "violations": found}
    return found


def call_site_shape(run, path=None):
    """T1-style shape check of the call site in Client::handle (also executed by the wire leg).  Accepted, exactly:
           pool = self.get_pool().await?;          // the pool that is registered NOW (not the session's old object)
           pool.wait_paused().await;               // unconditional, once
           pool = self.get_pool().await?;          // re-resolved after the wait
           query_router.update_pool_settings(&pool.settings);
           self.transaction_mode = ...;
           ... pool.get(query_router.shard(), query_router.role(), ..)
       consecutive statements at one block level (comments and blank lines ignored)."""
    try:
        src = open(path or os.path.join(vlib.REPO, "src", "client.rs")).read()
    except OSError as e:
        return "cannot read client.rs: %s" % e
    lines = [l.rstrip() for l in src.splitlines() if l.strip() and not l.strip().startswith("//")]
    w = [n for n, l in enumerate(lines) if "wait_paused()" in l]
    if not w:
        return "Client::handle no longer calls pool.wait_paused().await"
    if len(w) != 1:
        return "Client::handle calls wait_paused() %d times (the model has one call per checkout)" % len(w)
    n = w[0]

    def ind(l):
        return len(l) - len(l.lstrip())
    if lines[n].strip() != "pool.wait_paused().await;":
        return "the wait is no longer the plain statement `pool.wait_paused().await;` (found `%s`)" % lines[n].strip()
    lookup = "pool = self.get_pool().await?;"
    if n >= 1 and lines[n - 1].rstrip().endswith("{") and ind(lines[n - 1]) < ind(lines[n]):
        return "pool.wait_paused().await is nested in `%s`: the gate is no longer passed before EVERY checkout" % lines[n - 1].strip()
    if n < 1 or lines[n - 1].strip() != lookup:
        return "the pool is not looked up right before wait_paused(): the session would wait on the pool object it resolved earlier (a removed / replaced pool nobody pauses)"
    if n + 3 >= len(lines) or lines[n + 1].strip() != lookup:
        return "the pool is no longer re-resolved between wait_paused() and the checkout"
    if lines[n + 2].strip() != "query_router.update_pool_settings(&pool.settings);":
        return "the pool settings are no longer refreshed after the wait"
    if not lines[n + 3].strip().startswith("self.transaction_mode ="):
        return "transaction_mode is no longer refreshed after the wait"
    if len({ind(lines[m]) for m in range(n - 1, n + 4)}) != 1:
        return "pool.wait_paused().await is nested in a condition (not at the block level of the lookups around it): the gate is no longer passed before EVERY checkout"
    # the block that contains the gate must be the transaction loop body itself, not an `if` / `match` arm
    depth_line = None
    for m in range(n - 2, -1, -1):
        if ind(lines[m]) < ind(lines[n]) and lines[m].rstrip().endswith("{"):
            depth_line = lines[m].strip(); break
    if depth_line is None or not depth_line.startswith("loop"):
        return "the gate sits inside `%s`, not directly in the transaction loop: it is passed only for some messages / modes" % depth_line
    rest = "\n".join(lines[n + 4:])
    if ".get(query_router.shard(), query_router.role()" not in rest:
        return "pool.wait_paused().await no longer precedes the checkout pool.get(..)"
    return None


def check(run):
    quick = run.tier == "quick"
    run.assumptions += [
        "Coq 8.16.1 kernel + vm_compute; no axioms (Print Assumptions: closed under the global context for all 19 theorems)",
        "Env tokio 1.29.1 Notify (sync/notify.rs:472-474, 505-515, 619-636, 918-923): notified() snapshots the notify_waiters call counter; a later notify_waiters() completes the future even if never polled — modelled as gen/snap, exercised by every hooked schedule, not proved",
        "Ordering::Relaxed accesses to `paused` are modelled as sequentially consistent atomic steps (platform assumption; the hooked harness serialises steps through a mutex, the free-running races run the real orderings on x86-64)",
        "one admin console issues PAUSE/RESUME sequentially (a PAUSE between another console's store and notify is outside the guarantee: c16_two_admin_refuted)",
        "wire leg: the mock PostgreSQL backend and the scripted client of harness bin `wire`; 'needs a checkout' (transaction mode: not in a transaction; session mode: never served) is scenario knowledge; a statement is 'held' if it is not answered within a 150 ms window AND does not reach any mock backend before the RESUME is sent",
    ]
    run.cov["trusted_base"] = ["coqc 8.16.1 kernel", "vm_compute", "harness/src/bin/pause.rs (hand-rolled executor, schedule driver, race driver)",
                               "/repo/src/verif_hooks.rs (cfg pgcat_verif only)", "props/c16.py (enumerator, monitor, comparison)",
                               "tokio Notify semantics and SC atomics (environment, see assumptions)",
                               "Print Assumptions: Closed under the global context (all theorems)"]
    proof_ok, log = vlib.prove(run, COQ_FILES, "Pause/Props.v")
    run.log("proof ok=%s" % proof_ok)
    ok, blog, bins = vlib.cargo_build(["pause"])
    if not ok:
        run.violation("tie-broken", "harness does not build against /repo (ConnectionPool::{pause,resume,paused,wait_paused} or verif_hooks changed)",
                      {"correspondence": "pause harness build", "log": blog[-3000:]}, found_input=False)
        return
    binp = bins["pause"]
    G = 25 if quick else 200      # grace for the bounded still-blocked observation (ms); 20 ms in the very large families
    stats = {"schedules": 0, "steps": 0, "distinct": set(), "nontrivial": set(), "final_blocked": 0, "released": 0}
    families = []
    progs1 = ["".join(p) for l in range(0, 4) for p in itertools.product("PR", repeat=l)] + ["PRPR"]
    fam = []
    for pr in progs1:
        fam += [(1, s) for s in enumerate_schedules(1, 2, pr, wake="free")]
    families.append(("1 client x 2 transactions, every admin program over {PAUSE,RESUME} of length <= 3 and PRPR, CWake scheduled freely", fam))
    fam = []
    for pr in ["", "P", "R", "PR", "RP", "PRP"]:
        fam += [(2, s) for s in enumerate_schedules(2, 1, pr, wake="eager")]
    families.append(("2 clients x 1 transaction, admin programs '', P, R, PR, RP, PRP, every interleaving (CWake eager)", fam))
    fam = [(2, s) for s in enumerate_schedules(2, 1, "PR", wake="free")]
    families.append(("2 clients x 1 transaction, admin PR, CWake scheduled freely", fam))
    if not quick:
        fam = []
        for pr in ["PP", "RR", "PRR", "RPR", "PRPR"]:
            fam += [(2, s) for s in enumerate_schedules(2, 1, pr, wake="eager")]
        families.append(("2 clients x 1 transaction, admin programs PP, RR, PRR, RPR, PRPR (CWake eager)", fam))
        fam = []
        for pr in ["PR", "RP", "PRP", "RPR", "PRPR"]:
            fam += [(2, s) for s in random_schedules(2, 2, pr, 10000, run.rng)]
        families.append(("2 clients x 2 transactions, admin PR, RP, PRP, RPR, PRPR: 10000 seeded random walks each (distinct ones kept)", fam))
        fam = []
        for pr in ["P", "R", "PR", "RP"]:
            fam += [(3, s) for s in enumerate_schedules(3, 1, pr, wake="eager", symmetric=True)]
        families.append(("3 clients x 1 transaction, admin P, R, PR, RP, every interleaving up to client symmetry (CWake eager)", fam))
        fam = []
        for pr in ["PRP", "PRPR"]:
            fam += [(3, s) for s in random_schedules(3, 1, pr, 10000, run.rng)]
        families.append(("3 clients x 1 transaction, admin PRP, PRPR: 10000 seeded random walks each (distinct ones kept)", fam))
        fam = [(3, s) for s in random_schedules(3, 2, "PRPR", 10000, run.rng)]
        families.append(("3 clients x 2 transactions, admin PRPR: 10000 seeded random walks (distinct ones kept)", fam))
    fam = [(2, s) for s in transition_cover(2)]
    families.append(("model-guided BFS: for every reachable (abstract state, step) pair of the 2-client model a shortest schedule ending with it", fam))

    covered = set()
    nv = 0
    if not selftest(run, binp):
        return
    if order_witnesses(run, binp):
        return
    shape = call_site_shape(run)
    run.cov["call_site_shape"] = shape or "ok"
    # a changed shape is a broken tie: go on and search for a failing input (hooked schedules, admin console, wire leg,
    # races); it is reported as no-failing-input-found only if that search finds none (see the end of check)
    for fi, (desc, fam) in enumerate(families):
        reqs = []
        for n, evs in fam:
            reqs.append(mk_req(n, evs, grace_for(n, evs, G if len(fam) <= 20000 else 20)))
            st = m_init(n)
            for e in evs:
                if n <= 2:
                    covered.add(m_abstract(st, e))
                st = m_step(st, e)
        run.log("family %d: %s -> %d schedules" % (fi, desc, len(reqs)))
        nv += check_batch(run, binp, reqs, "f%d" % fi, stats)
        if nv:
            break
    if not nv:
        reqs = [dict(r, mode="schedule", id=i, grace_ms=G) for i, r in enumerate(MULTIPOOL)]
        nv += check_batch(run, binp, reqs, "pools", stats)

    if not nv:
        before = len(run.violations)
        check_admin(run, binp)
        nv += len(run.violations) - before      # NOT the shape violation: a broken shape must not stop the search for a failing input

    # wire leg: the call site in Client::handle executed (transaction and session mode, real admin client)
    if not nv:
        okw, wlog, wbins = vlib.cargo_build(["wire"])
        if not okw:
            run.violation("tie-broken", "wire harness does not build against /repo", {"correspondence": "wire harness build", "log": wlog[-3000:]}, found_input=False)
            nv += 1
        else:
            nvw, wscripts, wresults = c16wire.run_leg(run, wbins["wire"], quick)
            nv += nvw
            if not nvw:
                c16wire.selftest(run, wbins["wire"], wscripts, wresults)

    # free-running races (hooks disarmed) with the stuck detector
    race = {"rounds": 0}
    if not nv:
        per = 1500 if quick else 25000
        procs = 8 if quick else 16
        reqs = [[{"mode": "race", "id": i, "seed": run.seed * 1000 + i, "rounds": per, "workers": 4, "max_clients": 3}] for i in range(procs)]
        t0 = time.time()
        try:
            with ThreadPoolExecutor(max_workers=procs) as ex:
                outs = [o[0] for o in ex.map(lambda r: _run_chunk(binp, r, timeout=3000), reqs)]
        except HarnessFailure as e:
            run.broken.append(str(e)); outs = []
        race = {k: sum(o.get(k, 0) for o in outs) for k in ("rounds", "calls", "held_calls", "overlap_calls", "inflight_calls", "inflight_held", "slow")}
        race["processes"] = procs
        run.log("races: %s in %.1fs" % (race, time.time() - t0))
        for o in outs:
            for v in o.get("violations", []):
                nv += 1
                run.violation("counterexample", "free-running race: %s (%s)" % (v.get("kind"), v.get("what", "a wait_paused() call lies entirely inside a definitely-paused interval")),
                              {"race": v, "request": {"mode": "race", "seed": v.get("seed"), "rounds": v.get("round", 0) + 1, "workers": 4, "max_clients": 3}})

    tot2 = transitions_total(2)
    run.cov["evaluations"] = stats["schedules"] + race.get("rounds", 0)
    run.cov["distinct_nontrivial"] = len(stats["nontrivial"])
    run.cov["schedules_run"] = stats["schedules"]
    run.cov["distinct_schedules"] = len(stats["distinct"])
    run.cov["steps_compared"] = stats["steps"]
    run.cov["schedules_ending_with_a_blocked_client"] = stats["final_blocked"]
    run.cov["schedules_with_a_held_then_released_client"] = stats["released"]
    run.cov["transitions_total"] = len(tot2)
    run.cov["transitions_covered"] = len(covered & tot2)
    run.cov["free_running_races"] = race
    run.cov["families"] = [{"family": d, "schedules": len(f)} for d, f in families] + [{"family": "2 pools (per-pool and global PAUSE/RESUME)", "schedules": len(MULTIPOOL)}]
    run.cov["rule"] = ("every maximal interleaving of the model's atomic steps (CReg, CLoad, CDecide, CWake, CDone, APause, AStore, ANotify) for the actor sets listed in `families`, "
                       "generated from the step relation and replayed on the real ConnectionPool through the verif_hooks points; after EVERY step the observed (paused(), resume half done, per-client idle/reg/loaded/blocked/passed, "
                       "return value) is compared with Pause.Model.trace_views evaluated by vm_compute on the same schedule, and the monitor (i)/(ii)/(iii) is evaluated on the observed trace alone. "
                       "distinct_nontrivial = distinct schedules in which a client was observed blocked in wait_paused() or wait_paused() returned true (the client had read paused = true). "
                       "transitions = (abstract state, event) pairs of the 2-client model (snap<gen abstraction), all reachable ones vs those exercised by the 1- and 2-client schedules. "
                       "free_running_races: hooks disarmed, 4-worker tokio runtime, random pause/resume programs ending in resume vs 1-3 clients x 1-12 calls; stuck detector 2 s + 15 s confirmation")
    ex = families[1][1][len(families[1][1]) // 2]
    run.cov["samples"] = [{"clients": 2, "steps": [tok(e) for e in ex[1]]}, MULTIPOOL[1],
                          {"clients": 1, "steps": [tok(e) for e in families[0][1][-1][1]]}]
    run.cov["input_distribution"] = {"by_clients": {str(k): sum(1 for key in stats["distinct"] if key[0] == k) for k in (1, 2, 3)},
                                     "multi_pool": sum(1 for key in stats["distinct"] if key[1] > 1),
                                     "max_steps": max((len(key[2]) for key in stats["distinct"]), default=0)}

    if shape and not any(found for _, _, found in run.violations):
        run.violation("tie-broken", "translator-shape-changed: %s" % shape,
                      {"correspondence": "src/client.rs Client::handle call site of wait_paused()", "shape": shape,
                       "searched": "hooked schedules, admin console scenarios, %d wire scenarios, free-running races: no failing input" % run.cov.get("wire", {}).get("scenarios", 0)}, found_input=False)
    if not proof_ok and not run.violations and not run.broken:
        # the implementation agreed with the monitor on every schedule: report the broken proof as such
        run.violation("proof-broken", "Pause/Props.v no longer checks; the monitor found no failing schedule on the implementation",
                      {"theorem": "Pause/Props.v", "coq_log": log[-2500:]}, found_input=False)
    if not quick and proof_ok:
        vlib.coqchk(run, ["PV.Pause.Props"])


def replay(run, path):
    r = json.load(open(path))
    ok, blog, bins = vlib.cargo_build(["pause"])
    if not ok:
        print(blog[-2000:]); return 2
    print(json.dumps({k: v for k, v in r.items() if k not in ("impl_trace", "model_trace")}, indent=1)[:3000])
    if "race" in r:
        out = _run_chunk(bins["pause"], [r["request"]])[0]
        print("replay (free-running, not deterministic):", json.dumps(out)[:2000])
        return 1 if out.get("violations") else 0
    if "wire_scenario" in r:
        okw, wlog, wbins = vlib.cargo_build(["wire"])
        return c16wire.replay(run, wbins["wire"], r)
    if "admin_scenario" in r:
        ans = run_admin(bins["pause"], "replay", r["admin_scenario"]["ops"])
        for t in ans["trace"]:
            o = dict(t["op"]); o.pop("toml", None)
            print("  %-60s %s" % (json.dumps(o), status_of(t["obs"])))
        print("  final", status_of(ans["final"]), ans["final"]["pools"])
        return 1 if "blocked" in status_of(ans["final"]).values() else 0
    req = r.get("schedule")
    if not isinstance(req, dict):
        print("no schedule in replay file"); return 2
    req = dict(req, mode="schedule", grace_ms=200)
    ans = _run_chunk(bins["pause"], [req])[0]
    for rec in ans["trace"]:
        print("  %-14s ok=%-5s paused=%s mid=%s clients=%s ret=%s" % (rec["step"], rec["ok"], rec["obs"]["paused"], rec["obs"]["admin_mid"], rec["obs"]["clients"], rec["obs"]["ret"]))
    print("  final          clients=%s" % ans["final"]["clients"])
    bad = monitor(req, ans)
    per, _ = project(req)
    mt = model_traces("c16_replay", [(req["clients"], [ev for _, ev in per[k]]) for k in sorted(per)])
    diffs = compare(req, ans, {k: t for k, t in zip(sorted(per), mt)})
    print("monitor:", bad or "ok")
    print("model diff:", diffs or "none")
    return 1 if (bad or diffs) else 0
