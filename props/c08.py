"""C08 — prepared-statement caching is invisible to clients.

Layer 1 (codec, fully tied at library level):
  P: coq/Prep/{Codec,CodecProofs,Props}.v — byte-level model of Parse/Bind/Describe/Close decode,
     encode, rename, get_name, get_hash's input; rename = splice of name + length, round trips,
     decoder classification, hash-key injectivity (and the old key's non-injectivity).
  T: harness bin `codec` (real TryFrom impls, Bind::rename, Describe::rename, Parse::get_hash,
     Parse::rewrite, Close::new under catch_unwind) vs the model evaluated by coqc vs independent
     Python oracles (splice on raw bytes, SipHash-1-3 of the model's hasher stream).
Layer 2 (cache refinement, abstract): coq/Prep/{Cache,CacheProofs}.v proved here; its wire tie
  (in-process pgcat + mock backends) is prepared by gen_programs()/predict() below.
"""
import json, os, struct, sys
import vlib
from props import c08lib as L
from props import c08wire as CW
from props import wirelib as W

COQ_FILES = ["Prep/Codec.v", "Prep/CodecProofs.v", "Prep/CodecObs.v", "Prep/Cache.v", "Prep/CacheProofs.v", "Prep/CacheObs.v", "Prep/Props.v"]
PRE = "From PV Require Import Prep.Codec Prep.CodecObs.\nFrom Coq Require Import ZArith NArith List Bool. Import ListNotations. Open Scope Z_scope."

NAMES = [b"", b"a", b"s1", b"stmt_1", b"PGCAT_7", b"S_1", b'a"b', b"it's", b"x" * 63, b"n" * 200, b"\xc3\xa9t\xc3\xa9", b"1", b"0",
         b"__pgcat", b"a b", b"%s", b"\\", b"{}", b"$1"]
QUERIES = [b"SELECT 1", b"", b"SELECT $1::int AS c1", b"SELECT $1::int AS c", b"select * from t where id = $1 and v = $2",
           b"INSERT INTO t VALUES ($1, $2, $3)", b"SELECT 'it''s'", b'SELECT "Col" FROM "T"', b"SELECT 10", b"SELECT 1,2",
           b"BEGIN", b"q" * 500, b"SELECT '\xe2\x82\xac'", b"DEALLOCATE ALL", b"SELECT 1 -- 0", b"SELECT $1 /* 1,23 */"]
OIDS = [0, 23, 25, 1043, 20, 1700, 16, 2950, 17, 1, 10, 100, 2**31 - 1, -1, -2**31, 705]
NEWNAMES = [b"PGCAT_0", b"PGCAT_1", b"PGCAT_12", b"PGCAT_123456", b"PGCAT_18446744073709551615", b"", b"x"]
NONUTF8 = [b"\xff", b"caf\xe9", b"\xc3", b"\xe2\x82", b"\xf0\x9f\x98", b"\xed\xa0\x80", b"\xc0\xaf", b"\xf4\x90\x80\x80", b"a\x80b", b"\xe0\x80\x80",
           b"\xf8\x88\x80\x80\x80", b"\xef\xbf\xbd", b"\xf0\x9f\x98\x80", b"\xe2\x28\xa1", b"\xf0\x28\x8c\xbc", b"\xf0\x90\x28\xbc", b"\xdf\xbf", b"\xc2\x7f"]


# ------------------------------------------------------------------------------------------------ generators
def rnd_bytes(rng, n, alphabet=None):
    if alphabet:
        return bytes(rng.choice(alphabet) for _ in range(n))
    return bytes(rng.getrandbits(8) for _ in range(n))


def gen_text(rng, pool):
    c = rng.random()
    if c < 0.6:
        return rng.choice(pool)
    if c < 0.8:
        return rnd_bytes(rng, rng.choice([1, 2, 3, 8, 17, 40]), b"abcXYZ019_ $,'\"")
    if c < 0.9:
        return rng.choice(pool) + str(rng.randint(0, 99)).encode()
    return "".join(rng.choice("aé€😀z0") for _ in range(rng.randint(1, 6))).encode()


def gen_parse(rng):
    n = rng.choice([0, 0, 1, 1, 2, 3, 5, 16])
    return L.parse_msg(gen_text(rng, NAMES), gen_text(rng, QUERIES), [rng.choice(OIDS) for _ in range(n)])


def gen_param(rng):
    c = rng.random()
    if c < 0.25:
        return None
    if c < 0.35:
        return b""
    if c < 0.7:
        return str(rng.randint(-10**6, 10**6)).encode()
    return rnd_bytes(rng, rng.choice([1, 2, 4, 8, 9, 33]))


def gen_bind(rng, nulls=True):
    m = rng.choice([0, 1, 1, 2, 3, 6])
    params = [gen_param(rng) for _ in range(m)]
    if not nulls:
        params = [p if p is not None else b"" for p in params]
    fm = rng.choice([[], [0], [1], [rng.randint(0, 1) for _ in range(m)]])
    rf = rng.choice([[], [0], [1], [1, 0, 1]])
    return L.bind_msg(gen_text(rng, [b"", b"", b"p1", b"portal"]), gen_text(rng, NAMES), fm, params, rf)


def gen_describe(rng, code=b"D"):
    return L.describe_msg(rng.choice([b"S", b"S", b"P", b"x", b"\0", b"\xff"]), gen_text(rng, NAMES), code)


def mutations(rng, b, every_offset):
    """malformed stream derived from a well-formed message b"""
    out = []
    offs = range(len(b)) if every_offset else sorted(set(rng.sample(range(len(b)), min(len(b), 6))) | {0, 1, 4, 5, 6, len(b) - 1})
    for k in offs:                                      # truncated at offset k
        if 0 <= k < len(b):
            out.append(b[:k])
    (ln,) = struct.unpack(">i", b[1:5])
    for v in (0, 3, 4, 5, ln - 1, ln + 1, ln + 4, ln - 4, -1, -2, -2**31, 2**20, 2**27):   # wrong length field (bounded: see trusted base)
        out.append(b[:1] + struct.pack(">i", v) + b[5:])
    for t in (b"\0", b"x", b"\0\0\0\0", b"junk\0junk", b"\xff\xff"):                       # extra trailing bytes
        out.append(b + t)
        out.append(b[:1] + struct.pack(">i", ln + len(t)) + b[5:] + t)                      # ... inside a consistent frame
    zs = [i for i in range(5, len(b)) if b[i] == 0]
    for i in zs[:6]:                                    # a terminator (or zero count byte) replaced
        out.append(b[:i] + b"x" + b[i + 1:])
        out.append(b[:i] + b[i + 1:])
    for _ in range(4):                                  # bad counts / bytes past the length field
        i = rng.randrange(5, max(6, len(b)))
        if i < len(b):
            out.append(b[:i] + bytes([rng.choice([0, 1, 0x7f, 0x80, 0xff, b[i] ^ 1])]) + b[i + 1:])
    for s in rng.sample(NONUTF8, 3):                    # text that is not UTF-8
        i = rng.randrange(5, max(6, len(b)))
        out.append(b[:i] + s + b[i:])
    return out


def coq_res_bytes(v):
    """parsed Coq `res bytes` -> ("ok", bytes) | ("err",) | ("panic",)"""
    if v == "Err":
        return ("err",)
    if v == "Panic":
        return ("panic",)
    assert v[0] == "Ok", v
    return ("ok", bytes(v[1]))


def real_res_bytes(o):
    return ("ok", bytes.fromhex(o["hex"])) if o["r"] == "ok" else (o["r"],)


def optb(v):
    return None if v is None else bytes(v[1])


# ------------------------------------------------------------------------------------------------ layer 1 tie
class Tie:
    def __init__(self, run, binp, chk=True, tag="debug"):
        self.run, self.binp, self.chk, self.tag = run, binp, chk, tag
        self.evals = 0
        self.distinct = set()
        self.dist = {}
        self.samples = []
        self.findings = {}

    def count(self, kind):
        self.dist[kind] = self.dist.get(kind, 0) + 1

    def bad(self, kind, what, case):
        self.run.violation(kind, what, dict(case, build=self.tag))

    def go(self, cases):
        """cases: list of (op, bytes b, new-name m).  Runs real + model + oracles; returns False on a violation."""
        run, ck = self.run, ("true" if self.chk else "false")
        ops, exprs = [], []
        for op, b, m in cases:
            o = {"op": op, "hex": b.hex()}
            if op in ("parse", "bind_rename", "describe"):
                o["name"] = m.hex()
            ops.append(o)
            cb, cm = vlib.coq_bytes(b), vlib.coq_bytes(m)
            exprs.append({"parse": "obs_parse %s %s %s" % (ck, cb, cm), "bind": "obs_bind %s %s" % (ck, cb),
                          "bind_rename": "obs_bind_rename %s %s %s" % (ck, cb, cm), "describe": "obs_describe %s %s" % (cb, cm),
                          "close": "obs_describe %s %s" % (cb, cm), "names": "obs_names %s" % cb}[op])
            if op == "names":
                ops[-1] = [{"op": "parse_get_name", "hex": b.hex()}, {"op": "bind_get_name", "hex": b.hex()}]
        real = L.run_codec(self.binp, ops)
        vals = L.coq_eval("c08_" + self.tag, PRE, exprs, shard=max(50, len(exprs) // 16 + 1))
        for (op, b, m), o, v in zip(cases, real, vals):
            self.evals += 1
            self.distinct.add((op, b, m))
            mv = vlib.parse_coq(v)
            case = {"input": {"op": op, "hex": b.hex(), "new_name_hex": m.hex()}, "model": v[:1500], "impl": json.dumps(o)[:1500]}
            if not getattr(self, "cmp_" + op)(b, m, o, mv, case):
                return False
            run.cov["traces_validated_against_impl"] += 1
        return True

    # -- Parse
    def cmp_parse(self, b, m, o, mv, case):
        if isinstance(mv, str):
            self.count("parse:" + mv)
            if o["r"] != mv.lower():
                self.bad("tie-broken", "Parse decoder: model says %s, implementation %s on %s" % (mv, o["r"], b.hex()), case)
                return False
            return True
        self.count("parse:Ok")
        if o["r"] != "ok":
            self.bad("tie-broken", "Parse decoder: model decodes, implementation %s on %s" % (o["r"], b.hex()), case)
            return False
        code, ln, name, query, np, tys, enc, ren, hs, canon, spl = mv[1]
        d = L.parse_debug(o["dbg"])
        dq = d["query"]
        dq = bytes(dq) if isinstance(dq, list) else dq[1]         # Vec<u8> since a7561f2 (was String)
        got = (d["code"][1], d["len"], d["name"][1], dq, d["num_params"], d["param_types"])
        want = (code, ln, bytes(name), bytes(query), np, tys)
        if got != want or bytes.fromhex(o["name"]) != bytes(name):
            self.bad("tie-broken", "Parse decoder fields differ: model %r, implementation %r" % (want, got), case)
            return False
        if real_res_bytes(o["enc"]) != coq_res_bytes(enc) or real_res_bytes(o["enc_ref"]) != coq_res_bytes(enc) or real_res_bytes(o["renamed"]) != coq_res_bytes(ren):
            self.bad("tie-broken", "Parse encoder differs from the model on %s" % b.hex(), case)
            return False
        if np < 0 and struct.unpack(">i", b[1:5])[0] == len(b) - 1 and "parse-negative-count" not in self.findings:
            e = o["renamed"]
            what = "panics (overflow check)" if e["r"] == "panic" else ("emits length field %d for a %d-byte frame" % (struct.unpack(">i", bytes.fromhex(e["hex"])[1:5])[0], len(e["hex"]) // 2 - 1) if e["r"] == "ok" else e["r"])
            self.findings["parse-negative-count"] = (b.hex(), what)
        # hash: SipHash-1-3 of the model's hasher stream must be the real key; renaming never changes it
        if L.sip13(bytes(hs)) != int(o["hash"]) or o["hash_renamed"] != o["hash"]:
            self.bad("tie-broken", "Parse::get_hash is not SipHash13(query, num_params, param_types) of the decoded fields on %s" % b.hex(), case)
            return False
        # monitor (no model): on a well-formed frame the renamed message is the original with only name+length changed
        ref = L.splice(b, m, 0, 0)
        if canon:
            self.count("parse:canonical")
            if real_res_bytes(o["renamed"]) != ("ok", ref) or optb(spl) != ref:
                self.bad("counterexample", "renaming a well-formed Parse changed more than the name and the length: %s -> %s (expected %s)"
                         % (b.hex(), o["renamed"].get("hex"), ref.hex() if ref else None), case)
                return False
        elif o["renamed"]["r"] == "ok" and ref is not None and bytes.fromhex(o["renamed"]["hex"]) != ref:
            self.count("parse:noncanonical-altered")
            if struct.unpack(">i", b[1:5])[0] == len(b) - 1:          # only frames read_message can deliver
                key = "parse-nonutf8-rewritten" if any(x >= 128 for x in b[5:]) and bytes(query) + bytes(name) != b"" and \
                    (bytes(name) + b"\0" + bytes(query)) not in b else "parse-noncanonical-rewritten"
                if key not in self.findings or len(self.findings[key][0]) > len(b.hex()):
                    self.findings[key] = (b.hex(), o["renamed"]["hex"], ref.hex())
        return True

    # -- Bind decode/encode
    def cmp_bind(self, b, m, o, mv, case):
        if isinstance(mv, str):
            self.count("bind:" + mv)
            if o["r"] != mv.lower():
                self.bad("tie-broken", "Bind decoder: model says %s, implementation %s on %s" % (mv, o["r"], b.hex()), case)
                return False
            return True
        self.count("bind:Ok")
        if o["r"] != "ok":
            self.bad("tie-broken", "Bind decoder: model decodes, implementation %s on %s" % (o["r"], b.hex()), case)
            return False
        code, ln, portal, stmt, (nfc, fcs), (npv, pvs), (nrc, rcs), enc = mv[1]
        d = L.parse_debug(o["dbg"])
        got = (d["code"][1], d["len"], d["portal"][1], d["prepared_statement"][1], d["num_param_format_codes"], d["param_format_codes"],
               d["num_param_values"], [(a, bytes(x)) for a, x in d["param_values"]], d["num_result_column_format_codes"], d["result_columns_format_codes"])
        want = (code, ln, bytes(portal), bytes(stmt), nfc, fcs, npv, [(a, bytes(x)) for a, x in pvs], nrc, rcs)
        if got != want or bytes.fromhex(o["name"]) != bytes(stmt):
            self.bad("tie-broken", "Bind decoder fields differ: model %r, implementation %r" % (want, got), case)
            return False
        if real_res_bytes(o["enc"]) != coq_res_bytes(enc):
            self.bad("tie-broken", "Bind encoder differs from the model on %s: model %s impl %s" % (b.hex(), coq_res_bytes(enc)[0], o["enc"]["r"]), case)
            return False
        if o["enc"]["r"] == "panic" and any(a < 0 for a, _ in want[7]):
            self.count("bind:encode-panics-on-NULL")
        return True

    # -- Bind::rename
    def cmp_bind_rename(self, b, m, o, mv, case):
        ren, spl = mv
        want = coq_res_bytes(ren)
        self.count("bind_rename:" + want[0])
        if real_res_bytes(o) != want:
            self.bad("tie-broken", "Bind::rename differs from the model on %s: model %s impl %s" % (b.hex(), want, o), case)
            return False
        ref = L.splice(b, m, 0, 1)
        if optb(spl) != ref and ref is not None:
            self.bad("tie-broken", "splice_name (Coq) differs from the Python reference on %s" % b.hex(), case)
            return False
        if want[0] == "ok" and ref is not None and want[1] != ref:
            self.bad("counterexample", "Bind::rename changed more than the statement name and the length: %s -> %s (expected %s)"
                     % (b.hex(), want[1].hex(), ref.hex()), case)
            return False
        return True

    # -- Describe / Close
    def cmp_describe(self, b, m, o, mv, case, close=False):
        what = "Close" if close else "Describe"
        if isinstance(mv, str):
            self.count(what + ":" + mv)
            if o["r"] != mv.lower():
                self.bad("tie-broken", "%s decoder: model says %s, implementation %s on %s" % (what, mv, o["r"], b.hex()), case)
                return False
            return True
        self.count(what + ":Ok")
        if o["r"] != "ok":
            self.bad("tie-broken", "%s decoder: model decodes, implementation %s on %s" % (what, o["r"], b.hex()), case)
            return False
        code, ln, target, name, enc, ren, canon, spl = mv[1]
        d = L.parse_debug(o["dbg"])
        got = (d["code"][1], d["len"], d["close_type" if close else "target"][1], d["name" if close else "statement_name"][1])
        want = (code, ln, target, bytes(name))
        if got != want or bytes.fromhex(o["name"]) != bytes(name):
            self.bad("tie-broken", "%s decoder fields differ: model %r, implementation %r" % (what, want, got), case)
            return False
        if real_res_bytes(o["enc"]) != coq_res_bytes(enc):
            self.bad("tie-broken", "%s encoder differs from the model on %s" % (what, b.hex()), case)
            return False
        if close:
            if o["is_stmt"] != (target == 83) or o["anonymous"] != (len(name) == 0):
                self.bad("tie-broken", "Close::is_prepared_statement/anonymous differ from the model on %s" % b.hex(), case)
                return False
            return True
        if real_res_bytes(o["renamed"]) != coq_res_bytes(ren):
            self.bad("tie-broken", "Describe::rename + encoder differ from the model on %s" % b.hex(), case)
            return False
        ref = L.splice(b, m, 1, 0)
        if canon:
            self.count("Describe:canonical")
            if real_res_bytes(o["renamed"]) != ("ok", ref) or optb(spl) != ref:
                self.bad("counterexample", "renaming a well-formed Describe changed more than the name and the length: %s -> %s" % (b.hex(), o["renamed"].get("hex")), case)
                return False
        return True

    def cmp_close(self, b, m, o, mv, case):
        return self.cmp_describe(b, m, o, mv, case, close=True)

    def cmp_names(self, b, m, o, mv, case):
        pn, bn = mv
        for what, real, model in (("Parse::get_name", o[0], pn), ("Bind::get_name", o[1], bn)):
            want = coq_res_bytes(model)
            self.count(what + ":" + want[0])
            if real_res_bytes(real) != want:
                self.bad("tie-broken", "%s differs from the model on %s: model %s impl %s" % (what, b.hex(), want, real), case)
                return False
        return True


def near_collisions(rng, n):
    """(query, np, types) groups that the OLD concatenation key could not tell apart: every way of re-splitting
    query ++ dec(np) ++ join(types, ",") into another well-formed triple."""
    groups = []
    bases = [b"SELECT $1::int AS c", b"SELECT 1", b"select $1, $2 from t", b"SELECT $1::int AS c1", b"x", b""]
    tlists = [[], [0], [23], [20], [1700], [23, 25], [23, 1700], [0, 0], [1, 0], [10, 100], [2, 23, 1043], [20, 20, 20]]
    for _ in range(n):
        q = rng.choice(bases) + rng.choice([b"", b"1", b"0", b"12", b" -- 2"])
        tys = rng.choice(tlists)
        key = L.old_key(q, len(tys), tys)
        s = key[len(q):]                                   # the digits/commas the old key appended
        group = {(q, len(tys), tuple(tys))}
        for cut in range(len(s) + 1):
            x, r = s[:cut], s[cut:].decode()
            for n2 in range(0, 6):
                pre = str(n2)
                if not r.startswith(pre):
                    continue
                rest = r[len(pre):]
                parts = rest.split(",") if rest else []
                if len(parts) != n2 or any((not p.isdigit()) or (len(p) > 1 and p[0] == "0") or int(p) >= 2**31 for p in parts):
                    continue
                group.add((q + x, n2, tuple(int(p) for p in parts)))
        if len(group) > 1:
            groups.append(sorted(group))
    return groups


def layer1(run, binp, quick, chk=True, tag="debug"):
    rng = run.rng
    tie = Tie(run, binp, chk, tag)
    # constants, Close::new, Parse::rewrite (counter): one process, in order
    ops = [{"op": "consts"}] + [{"op": "close_new", "name": n.hex()} for n in NEWNAMES + NAMES]
    pm = L.parse_msg(b"a", b"SELECT 1", [23])
    ops += [{"op": "rewrite", "hex": pm.hex()} for _ in range(12)]
    real = L.run_codec(binp, [ops])[0]
    exprs = ["(parse_complete, close_complete)"] + ["obs_close_new %s" % vlib.coq_bytes(n) for n in NEWNAMES + NAMES] + \
            ["(gname %d, encode_parse %s (rename_parse (mkParse 80%%N 21 [97%%N] %s 1 [23]) (gname %d)))" % (i, "true" if chk else "false", vlib.coq_bytes(b"SELECT 1"), i) for i in range(12)]
    vals = [vlib.parse_coq(v) for v in L.coq_eval("c08k_" + tag, PRE, exprs)]
    if (bytes(vals[0][0]).hex(), bytes(vals[0][1]).hex()) != (real[0]["parse_complete"], real[0]["close_complete"]):
        run.violation("tie-broken", "parse_complete()/close_complete() bytes differ from the model", {"impl": real[0], "model": str(vals[0])})
        return tie
    k = 1 + len(NEWNAMES + NAMES)
    for n, o, v in zip(NEWNAMES + NAMES, real[1:k], vals[1:k]):
        tie.evals += 1
        if real_res_bytes(o["enc"]) != coq_res_bytes(v) or not o["is_stmt"]:
            run.violation("tie-broken", "Close::new(%r) encodes differently from the model" % n, {"impl": o, "model": str(v)})
            return tie
    for i, (o, v) in enumerate(zip(real[k:], vals[k:])):
        tie.evals += 1
        if o["r"] != "ok" or bytes.fromhex(o["name"]) != bytes(v[0]) or real_res_bytes(o["enc"]) != coq_res_bytes(v[1]) or not o["hash_same"]:
            run.violation("tie-broken", "Parse::rewrite #%d: name/bytes differ from the model (PGCAT_<counter>)" % i, {"impl": o, "model": str(v)})
            return tie
        ref = L.splice(pm, b"PGCAT_%d" % i, 0, 0)
        if bytes.fromhex(o["enc"]["hex"]) != ref:
            run.violation("counterexample", "Parse::rewrite changed more than the name and the length", {"input": pm.hex(), "impl": o, "expected": ref.hex()})
            return tie

    # structured (well-formed) messages
    N = 1 if quick else 12
    cases = []
    for n in NAMES:
        for q in QUERIES[:6]:
            cases.append(("parse", L.parse_msg(n, q, [23] if b"$1" in q else []), rng.choice(NEWNAMES)))
    for _ in range((180 if quick else 250) * N):
        cases.append(("parse", gen_parse(rng), rng.choice(NEWNAMES)))
    for _ in range((140 if quick else 200) * N):
        b = gen_bind(rng, nulls=rng.random() < 0.6)
        cases.append(("bind", b, b""))
        cases.append(("bind_rename", b, rng.choice(NEWNAMES)))
    for _ in range((80 if quick else 120) * N):
        cases.append(("describe", gen_describe(rng), rng.choice(NEWNAMES)))
        cases.append(("close", gen_describe(rng, b"C"), b""))
    for _ in range(60 * N):
        cases.append(("names", rng.choice([gen_parse, gen_bind, gen_describe])(rng), b""))
    nstruct = len(cases)
    tie.samples.append({"kind": "structured", "op": cases[5][0], "hex": cases[5][1].hex(), "new_name": cases[5][2].decode()})

    # malformed stream: every truncation of a few messages, plus bounded mutations of many
    seeds = [("parse", L.parse_msg(b"st", b"SELECT $1", [23, 25])), ("bind", L.bind_msg(b"p", b"st", [1, 0], [None, b"", b"ab"], [1])),
             ("describe", L.describe_msg(b"S", b"st")), ("close", L.describe_msg(b"S", b"st", b"C"))]
    mal = []
    for op, b in seeds:
        for mb in mutations(rng, b, True):
            mal.append((op, mb))
    for _ in range((22 if quick else 30) * N):
        for op, g in (("parse", gen_parse), ("bind", gen_bind), ("describe", gen_describe)):
            for mb in mutations(rng, g(rng), False):
                mal.append((op, mb))
    for s in NONUTF8:                                       # non-UTF-8 names / portals / queries
        mal.append(("parse", L.parse_msg(s, b"SELECT '" + s + b"'", [])))
        mal.append(("bind", L.bind_msg(s, s, [], [s], [])))
        mal.append(("describe", L.describe_msg(b"S", s)))
    for _ in range(40 * N):                                 # arbitrary bytes behind a plausible header
        body = rnd_bytes(rng, rng.choice([0, 1, 2, 5, 9, 20]), bytes([0, 0, 0, 1, 2, 65, 66, 255, 128]))
        mal.append((rng.choice(["parse", "bind", "describe", "close"]), L.frame(rng.choice([b"P", b"B", b"D", b"C"]), body)))
    skipped = 0
    for op, mb in mal:
        m = rng.choice(NEWNAMES)
        if op == "bind":
            if L.bind_max_param_len(mb) > 2**20:            # the real decoder would allocate and fill that much first
                skipped += 1
            else:
                cases.append(("bind", mb, b""))
            cases.append(("bind_rename", mb, m))
        elif op == "parse":
            cases.append(("parse", mb, m))
        else:
            cases.append((op, mb, m))
        if rng.random() < 0.3:
            cases.append(("names", mb, b""))
    tie.samples.append({"kind": "malformed", "op": cases[nstruct + 7][0], "hex": cases[nstruct + 7][1].hex()})
    ok = tie.go(cases)

    # near-colliding (query, types): real get_hash separates what the old concatenation key merged
    if ok:
        groups = near_collisions(rng, 60 * N)
        flat = [(q, np, tys) for g in groups for (q, np, tys) in g]
        ops = [{"op": "parse", "hex": L.parse_msg(rng.choice(NAMES[:6]), q, list(tys), np=np).hex()} for q, np, tys in flat]
        ops2 = [{"op": "parse", "hex": L.parse_msg(b"other_name", q, list(tys), np=np).hex()} for q, np, tys in flat]
        real, real2 = L.run_codec(binp, ops), L.run_codec(binp, ops2)
        hv = {}
        for (q, np, tys), o, o2 in zip(flat, real, real2):
            tie.evals += 1
            tie.distinct.add(("hash", q, np, tys))
            if o["r"] != "ok" or o["hash"] != o2["hash"] or int(o["hash"]) != L.sip13(L.hstream(q, np, list(tys))):
                run.violation("counterexample", "Parse::get_hash depends on more than (query, num_params, param_types) or is not the expected SipHash", {"input": {"query": q.decode("latin1"), "types": tys}, "impl": [o, o2]})
                ok = False
                break
            hv[(q, np, tys)] = o["hash"]
        if ok:
            for g in groups:
                keys = {L.old_key(q, np, list(tys)) for q, np, tys in g}
                hs = {hv[t] for t in g}
                tie.count("hash:old-key-collision-group")
                if len(keys) != 1:
                    run.broken.append("near-collision generator produced a group with different old keys")
                if len(hs) != len(g):
                    a, b2 = [t for t in g][:2]
                    run.violation("counterexample", "different statements share a cache key: %r and %r have the same Parse::get_hash" % (a, b2),
                                  {"input": {"statements": [[q.decode("latin1"), np, list(tys)] for q, np, tys in g]}, "impl_hashes": sorted(hs)})
                    ok = False
                    break
            # the same facts inside Coq on a sample: old_hkey merges, hkey separates
            sample = groups[:25]
            exprs = ["(map old_hkey %s, map hstream %s)" % (coq_triples(g), coq_triples(g)) for g in sample]
            for g, v in zip(sample, L.coq_eval("c08h_" + tag, PRE, exprs)):
                olds, news = vlib.parse_coq(v)
                tie.evals += 1
                if len({tuple(x) for x in olds}) != 1 or len({tuple(x) for x in news}) != len(g) or \
                   [bytes(x) for x in news] != [L.hstream(q, np, list(tys)) for q, np, tys in g]:
                    run.violation("tie-broken", "Coq old_hkey/hstream disagree with the Python transcription on %r" % (g,), {"model": v[:800]})
                    ok = False
                    break
            tie.samples.append({"kind": "near-collision group", "statements": [[q.decode("latin1"), np, list(tys)] for q, np, tys in groups[0]]})
    tie.skipped_big_alloc = skipped
    return tie


def coq_triples(g):
    return "[" + "; ".join("(%s, %d, [%s])" % (vlib.coq_bytes(q), np, "; ".join(str(t) for t in tys)) for q, np, tys in g) + "]"


# ------------------------------------------------------------------------------------------------ layer 2
PRE2 = "From PV Require Import Prep.Cache Prep.CacheObs.\nFrom Coq Require Import Arith List Bool. Import ListNotations."

# Statement ids (shared with coq/Prep/CacheObs.v kd): 90..94 fail at Parse, 95..97 fail at Execute, 99 = DEALLOCATE ALL.
def stmt_sql(st):
    """what a wire harness should send for abstract statement st (and what its mock backend keys verdicts on)"""
    if 90 <= st <= 94:
        return "SELEC %d" % st, []                      # syntax error at Parse
    if 95 <= st <= 97:
        return "SELECT %d/0" % st, []                   # run-time error at Execute
    if st == 99:
        return "DEALLOCATE ALL", []
    return "SELECT %d" % st, ([23] if st % 2 else [])    # distinct texts; some with a parameter type


def name_sql(n):
    return "" if n == 0 else "s%d" % n


def op_coq(o):
    k = o["op"]
    if k == "Parse":
        return "Parse %d %d %d" % (o["c"], o["n"], o["st"])
    if k == "Bind":
        return "Bind %d %d %d" % (o["c"], o.get("p", 0), o["n"])
    if k in ("Describe", "Close"):
        return "%s %d %d" % (k, o["c"], o["n"])
    if k in ("Execute", "DescribeP", "CloseP"):
        return "%s %d %d" % (k, o["c"], o.get("p", 0))
    if k == "Sync":
        return "Sync %d %d" % (o["c"], o["s"])
    if k == "Cleanup":
        return "Cleanup %d" % o["s"]
    raise ValueError(k)


def prog_coq(ops):
    return "[" + "; ".join(op_coq(o) for o in ops) + "]"


def P(c, n, st): return {"op": "Parse", "c": c, "n": n, "st": st}
def B(c, n, p=0): return {"op": "Bind", "c": c, "n": n, "p": p}          # portal p (0 = unnamed; "s<p>" on the wire, like statement names)
def D(c, n): return {"op": "Describe", "c": c, "n": n}
def E(c, p=0): return {"op": "Execute", "c": c, "p": p}
def DP(c, p): return {"op": "DescribeP", "c": c, "p": p}
def CP(c, p): return {"op": "CloseP", "c": c, "p": p}
def C(c, n): return {"op": "Close", "c": c, "n": n}
def S(c, s): return {"op": "Sync", "c": c, "s": s}
def CL(s): return {"op": "Cleanup", "s": s}


def gen_program(rng, nclients, nservers, k, length, wild):
    """Multi-client program.  Well-behaved mode mimics a driver: prepare / bind+execute / describe / close, one or a few
    statements per batch, names reused across clients and shadowed after Close; wild mode: arbitrary ops over small alphabets
    (including failing statements, Close+Parse in one batch, more statements per batch than the cache holds)."""
    names = [1, 2, 3] if not wild else [0, 1, 2, 3]
    stmts = [10, 11, 12, 13, 14, 15] if not wild else [10, 11, 12, 13, 90, 95, 99]
    tabs = [dict() for _ in range(nclients)]
    pend = [[] for _ in range(nclients)]            # ops of the open batch, per client
    out = []
    for _ in range(length):
        c = rng.randrange(nclients)
        if wild:
            r = rng.random()
            if r < 0.25:
                out.append(P(c, rng.choice(names), rng.choice(stmts)))
            elif r < 0.45:
                out.append(B(c, rng.choice(names), rng.choice([0, 0, 0, 1, 2])))
            elif r < 0.52:
                out.append(D(c, rng.choice(names)))
            elif r < 0.55:
                out.append(DP(c, rng.choice([0, 1, 2])))
            elif r < 0.7:
                out.append(E(c, rng.choice([0, 0, 0, 1, 2])))
            elif r < 0.77:
                out.append(C(c, rng.choice(names)))
            elif r < 0.8:
                out.append(CP(c, rng.choice([0, 1, 2, 3])))
            elif r < 0.97:
                out.append(S(c, rng.randrange(nservers)))
            else:
                out.append(CL(rng.randrange(nservers)))
            continue
        t = tabs[c]
        budget = k
        batch = []
        mentioned = set()
        openp = set()

        def be(n):
            """Bind + Execute through a portal: mostly the unnamed one, sometimes a named one whose name may EQUAL a statement
            name; Describe('P') / Close('P') sprinkled in; a named portal is bound only while it is not open"""
            p = rng.choice([0, 0, 0, 1, 2, 3])
            ops = []
            if p != 0 and p in openp:
                ops.append(CP(c, p)); openp.discard(p)
            ops.append(B(c, n, p)); openp.add(p)
            if rng.random() < 0.15:
                ops.append(DP(c, p))
            ops.append(E(c, p))
            r2 = rng.random()
            if r2 < 0.25:
                ops.append(CP(c, p)); openp.discard(p)
            elif r2 < 0.4:
                q = rng.choice([1, 2, 3])                   # Close('P') of a portal that may not exist / is called like a statement
                ops.append(CP(c, q)); openp.discard(q)
            return ops
        for _ in range(rng.choice([1, 1, 2, 3])):
            free = [n for n in names if n not in mentioned]
            have = [n for n in t if True]
            r = rng.random()
            if r < 0.35 and free and budget > 0:
                n = rng.choice(free)
                if n in t and rng.random() < 0.7:
                    continue                                # PostgreSQL would refuse to redefine: mostly avoid
                st = rng.choice(stmts)
                batch.append(P(c, n, st)); t[n] = st; mentioned.add(n); budget -= 1
                if rng.random() < 0.6:
                    batch += be(n)
            elif r < 0.75 and have and (budget > 0 or any(n in mentioned for n in have)):
                n = rng.choice([n for n in have if budget > 0 or n in mentioned])
                if n not in mentioned:
                    budget -= 1
                for _ in range(rng.choice([1, 1, 1, 2, 5])):     # the same statement bound several times (batch insert)
                    batch += be(n)
                mentioned.add(n)
                if rng.random() < 0.2 and openp:
                    batch.append(E(c, rng.choice(sorted(openp))))
            elif r < 0.85 and have and (budget > 0 or any(n in mentioned for n in have)):
                n = rng.choice([n for n in have if budget > 0 or n in mentioned])
                if n not in mentioned:
                    budget -= 1
                batch.append(D(c, n)); mentioned.add(n)
            elif have:
                n = rng.choice(have)
                batch.append(C(c, n)); del t[n]; mentioned.add(n)
        if not batch:
            continue
        pend[c] += batch + [S(c, rng.randrange(nservers))]
        # interleave: emit a random prefix of some clients' pending ops
        for c2 in rng.sample(range(nclients), nclients):
            m = rng.randint(0, len(pend[c2]))
            out += pend[c2][:m]
            pend[c2] = pend[c2][m:]
        if rng.random() < 0.03:
            out.append(CL(rng.randrange(nservers)))
    for c2 in range(nclients):
        out += pend[c2]
    return out


def rep_json(r):
    return r if isinstance(r, str) else [r[0], r[1]]


def bmsg_json(m):
    return m if isinstance(m, str) else [m[0]] + list(m[1:])


def predict(programs, tag="c08p"):
    """programs: list of {"k": cache size, "servers": n, "ops": [...]} -> model prediction per program, JSON-comparable:
    client_obs (what each client receives per Sync / when it is disconnected), per-backend message log (everything the
    backend receives, including out-of-band Parse/Close/Sync), final server cache / registering queue / backend statement
    table, the statement of every PGCAT_<g>, the direct-connection specification's replies, and the theorem's guard."""
    exprs = ["predict (Kid %d) %d %s" % (p["k"], p["servers"], prog_coq(p["ops"])) for p in programs]
    vals = L.coq_eval(tag, PRE2, exprs, shard=max(20, len(exprs) // 16 + 1))
    out = []
    for p, v in zip(programs, vals):
        obs, servers, gdef, spec, guard = vlib.parse_coq(v)

        def oj(o):
            return {"kind": o[0], "client": o[1], "replies": [rep_json(r) for r in o[2]]}
        out.append({
            "client_obs": [oj(o) for o in obs],
            "backends": [{"received": [bmsg_json(m) for m in sl], "cache_mru_first": lru, "registering_queue": q,
                          "statements": sorted([list(x) for x in bt])} for (sl, lru, q, bt) in servers],
            "pgcat_names": {("PGCAT_%d" % i): st for i, st in enumerate(gdef)},
            "direct_connection": [oj(o) for o in spec],
            "guard": guard})
    return out


# Scenarios in which pgcat (and the model) still differ from a direct connection: the remaining known classes, each CONFIRMED on the
# wire (model = implementation != direct connection).
WITNESSES = [
    ("F11e-cache-size-1-two-parses-then-bind-first", 1, 1,
     [P(0, 1, 10), P(0, 2, 11), B(0, 1), E(0), S(0, 0)],
     "F11e: cache size 1, Parse s1, Parse s2, Bind s1, Execute, Sync: the second Parse evicts the first (its Close goes out of band before its Parse was sent), Bind s1 re-prepares it out of band, then the client's own Parse of the same name arrives: 42P05, the batch fails"),
    ("F11e-more-parses-than-cache-leaks-statement", 2, 1,
     [P(0, 1, 10), P(0, 2, 11), P(0, 3, 12), S(0, 0), B(0, 1), E(0), S(0, 0), B(0, 1), E(0), S(0, 0)],
     "F11e: k+1 Parses in one batch with cache size k: PGCAT_0 is evicted (Close sent) before its Parse reaches the backend, so the backend keeps a statement the cache does not know; the next Bind s1 re-Parses it (42P05, swallowed, s1 dropped from the client map) and the Bind after that disconnects the client"),
    ("F11h-close-after-error-in-batch", 4, 1,
     [P(0, 1, 10), S(0, 0), P(0, 2, 95), B(0, 2), E(0), C(0, 1), S(0, 0), B(0, 1), E(0), S(0, 0)],
     "F11h: after an ErrorResponse PostgreSQL skips everything up to Sync; pgcat still applies the rest of the batch to its client map and synthesises the acknowledgements: [P s2 failing at Execute, B s2, E, C s1, S] answers 3,1,2,E,Z and forgets s1 (a direct connection skips the Close), the next Bind s1 disconnects the client"),
    ("F11h-parse-after-error-acknowledged", 4, 1,
     [P(0, 1, 10), S(0, 0), P(0, 2, 95), B(0, 2), E(0), P(0, 3, 10), S(0, 0), B(0, 3), E(0), S(0, 0)],
     "F11h (mirror image): a Parse that follows the failing message is acknowledged from the server cache and usable afterwards, a direct connection skips it (26000 on the later Bind)"),
    ("L-failed-parse-then-bind-twice-disconnects", 4, 1,
     [P(0, 1, 90), S(0, 0), B(0, 1), E(0), S(0, 0), B(0, 1), E(0), S(0, 0)],
     "lenient/by design: Bind of a name that does not exist answers ErrorResponse+ReadyForQuery and then DISCONNECTS the client (a direct connection answers 26000 and carries on)"),
]
# Repaired defects (regressions: must behave like a direct connection on the wire AND in the model) and investigated-fine scenarios
FINE = [
    ("fixed-F11a-first-parse-fails-second-retried", 8, 1, [P(0, 1, 90), P(0, 2, 10), S(0, 0), P(0, 2, 10), S(0, 0), B(0, 2), E(0), S(0, 0)]),
    ("fixed-F11a-other-client", 8, 1, [P(0, 1, 90), P(0, 2, 10), S(0, 0), P(1, 7, 10), B(1, 7), E(1), S(1, 0)]),
    ("fixed-F11b-close-then-parse-same-name", 8, 1, [P(0, 1, 10), S(0, 0), C(0, 1), P(0, 1, 11), S(0, 0), B(0, 1), E(0), S(0, 0)]),
    ("fixed-F11c-close-parse-bind-same-batch", 8, 1, [P(0, 1, 10), S(0, 0), C(0, 1), P(0, 1, 11), B(0, 1), E(0), S(0, 0), P(1, 5, 11), B(1, 5), E(1), S(1, 0)]),
    ("fixed-F11d-bind-then-reparse-other-server", 8, 2, [P(0, 1, 10), S(0, 0), B(0, 1), E(0), C(0, 1), P(0, 1, 11), S(0, 1)]),
    ("fixed-F11f-client-deallocate-all", 4, 1, [P(0, 1, 10), S(0, 0), P(1, 1, 99), B(1, 1), E(1), S(1, 0), B(0, 1), E(0), S(0, 0)]),
    ("fixed-F11g-out-of-band-error-drains-only-its-own-registration", 4, 2,
     [P(0, 9, 90), S(0, 1), P(0, 1, 10), B(0, 9), E(0), S(0, 0), P(1, 1, 10), B(1, 1), E(1), S(1, 0)]),
    ("fixed-F11f3-deallocate-all-then-parse-same-batch", 4, 1,
     [P(0, 1, 99), B(0, 1), E(0), P(0, 2, 10), S(0, 0), P(1, 1, 10), B(1, 1), E(1), S(1, 0)]),
    ("fixed-F11g-close-of-evicted-not-skipped", 2, 2,
     [P(1, 1, 10), S(1, 0), P(1, 2, 11), S(1, 0), P(0, 1, 90), S(0, 1), B(0, 1), E(0), S(0, 0), B(1, 1), E(1), S(1, 0), B(1, 1), E(1), S(1, 0)]),
    ("ii-pool-eviction-while-client-holds-arc", 1, 1, [P(0, 1, 10), S(0, 0), P(1, 1, 11), S(1, 0), P(1, 2, 10), B(1, 2), E(1), S(1, 0), B(0, 1), E(0), S(0, 0)]),
    ("iii-same-statement-two-names", 4, 2, [P(0, 1, 10), P(0, 2, 10), S(0, 0), C(0, 1), S(0, 0), B(0, 2), E(0), S(0, 1)]),
    ("iv-deallocate-all-at-checkin", 4, 1, [P(0, 1, 10), S(0, 0), CL(0), B(0, 1), E(0), S(0, 0)]),
    ("v-cache-size-1-parse-bind-one-batch", 1, 1, [P(0, 1, 10), B(0, 1), E(0), S(0, 0), P(0, 2, 11), B(0, 2), E(0), S(0, 0), B(0, 1), E(0), S(0, 0)]),
    ("two-clients-same-name-different-statements", 4, 2, [P(0, 1, 10), P(1, 1, 11), S(0, 0), S(1, 0), B(0, 1), E(0), S(0, 1), B(1, 1), E(1), S(1, 1)]),
    ("unnamed-statement-reparsed-in-one-batch", 2, 1, [P(0, 0, 10), B(0, 0), E(0), P(0, 0, 11), B(0, 0), E(0), S(0, 0), P(0, 0, 12), B(0, 0), E(0), S(0, 0)]),
    ("batch-insert-one-statement-bound-many-times", 1, 1, [P(0, 1, 10), S(0, 0)] + [B(0, 1), E(0)] * 6 + [S(0, 0)]),
    # portals and statements are two name spaces (seeded change: Close('P', x) must not forget STATEMENT x)
    ("fixed-portal-close-then-statement-of-the-same-name", 4, 1, [P(0, 1, 10), B(0, 1, 1), E(0, 1), CP(0, 1), S(0, 0), B(0, 1), E(0), S(0, 0), D(0, 1), S(0, 0)]),
    ("fixed-portal-named-like-statement-in-one-batch", 4, 1,
     [P(0, 1, 10), B(0, 1, 1), E(0, 1), CP(0, 1), B(0, 1), E(0), S(0, 0), B(0, 1, 1), DP(0, 1), E(0, 1), S(0, 0)]),
    ("fixed-portal-close-statement-keeps-portals", 4, 2,
     [P(0, 1, 10), P(0, 2, 11), B(0, 1, 2), B(0, 2, 1), C(0, 1), E(0, 2), E(0, 1), CP(0, 2), S(0, 0), B(0, 2), E(0), S(0, 1)]),
    ("fixed-portal-close-of-unknown-portal-named-like-statement", 2, 1, [P(0, 2, 11), S(0, 0), CP(0, 2), CP(0, 0), S(0, 0), B(0, 2), E(0), S(0, 0)]),
]


def pool_tie(run, binp, quick):
    """library-level tie of the pool cache: real PreparedStatementCache::{new, get_or_insert, promote} + Parse::rewrite's
    counter vs Cache.pool_get_or_insert / ppromote (sizes 0 (=1), 1, 2, 3, 8; get/promote sequences over few statements)."""
    rng = run.rng
    cases = []
    for _ in range(60 if quick else 1500):
        size = rng.choice([0, 1, 1, 2, 2, 3, 8])
        steps = [("get" if rng.random() < 0.75 else "promote", rng.choice([10, 11, 12, 13, 14])) for _ in range(rng.choice([3, 6, 12, 25]))]
        cases.append((size, steps))
    ops = []
    for size, steps in cases:
        ops.append({"op": "poolcache", "size": size,
                    "steps": [{k: L.parse_msg(b"n%d" % i, stmt_sql(st)[0].encode(), stmt_sql(st)[1]).hex()} for i, (k, st) in enumerate(steps)]})
    real = [L.run_codec(binp, [o])[0] for o in ops]          # names are canonicalised by first appearance (the counter is global)
    exprs = ["pool_run (Kgen %d 1) world0 [%s]" % (size, "; ".join(("PGet %d" if k == "get" else "PProm %d") % st for k, st in steps)) for size, steps in cases]
    vals = [vlib.parse_coq(v) for v in L.coq_eval("c08pool", PRE2, exprs)]
    n = 0
    for (size, steps), o, mv in zip(cases, real, vals):
        n += 1
        seen = {}
        got = []
        for x in o["names"]:
            if x is None:
                got.append(None)
            else:
                if not x["name"].startswith("PGCAT_") or not x["same_hash"]:
                    run.violation("counterexample", "pool cache returned a statement with another hash or an unexpected name", {"input": {"size": size, "steps": steps}, "impl": o})
                    return n
                got.append(seen.setdefault(x["name"], len(seen)))
        seen2 = {}
        want = [None if x is None else seen2.setdefault(x[1], len(seen2)) for x in mv]
        if got != want:
            run.violation("tie-broken", "pool cache (PreparedStatementCache::get_or_insert/promote) differs from the model: size %d steps %s: impl %s model %s" % (size, steps, got, want),
                          {"correspondence": "Cache.pool_get_or_insert vs pool.rs PreparedStatementCache", "input": {"size": size, "steps": steps}, "impl": got, "model": want})
            return n
        run.cov["traces_validated_against_impl"] += 1
    return n


def layer2(run, quick):
    """model-level checks (no implementation involved yet): the refinement theorem sampled on generated programs, the witness
    scenarios, and the JSON predictions a wire harness will be compared against."""
    rng = run.rng
    progs = []
    for i in range(160 if quick else 3000):
        k = rng.choice([1, 1, 2, 2, 3, 8])
        progs.append({"k": k, "servers": rng.choice([1, 2, 3]), "wild": False, "ops": None, "clients": rng.choice([1, 2, 3])})
    for i in range(80 if quick else 1500):
        progs.append({"k": rng.choice([1, 2, 8]), "servers": rng.choice([1, 2]), "wild": True, "ops": None, "clients": rng.choice([1, 2, 3])})
    for p in progs:
        p["ops"] = gen_program(rng, p["clients"], p["servers"], p["k"], rng.choice([4, 8, 14]) if not p["wild"] else rng.choice([6, 12, 20]), p["wild"])
    exprs = ["agree (Kid %d) %s" % (p["k"], prog_coq(p["ops"])) for p in progs]
    vals = [vlib.parse_coq(v) for v in L.coq_eval("c08a", PRE2, exprs, shard=max(20, len(exprs) // 16 + 1))]
    st = {"programs": len(progs), "guard_true": 0, "guard_true_agree": 0, "guard_false_agree": 0, "guard_false_differ": 0}
    for p, (g, a) in zip(progs, vals):
        if g and a:
            st["guard_true"] += 1; st["guard_true_agree"] += 1
        elif g:
            st["guard_true"] += 1
            run.violation("proof-broken", "model and direct-connection specification differ on a program that satisfies the guard of c08_refines_direct",
                          {"theorem": "c08_refines_direct", "input": {"k": p["k"], "ops": p["ops"]}}, found_input=False)
            return st, []
        elif a:
            st["guard_false_agree"] += 1
        else:
            st["guard_false_differ"] += 1
    # witnesses + fine scenarios
    sc = [{"k": k, "servers": ns, "ops": ops} for (_, k, ns, ops, _) in WITNESSES] + [{"k": k, "servers": ns, "ops": ops} for (_, k, ns, ops) in FINE]
    preds = predict(sc)
    wire = []
    for (name, k, ns, ops, why), pr in zip(WITNESSES, preds):
        differs = [o for o in pr["client_obs"]] != [o for o in pr["direct_connection"]]
        mo = [(o["kind"], o["client"], [r for r in o["replies"] if not isinstance(r, str) or r == "RErr"]) for o in pr["client_obs"]]
        so = [(o["kind"], o["client"], [r for r in o["replies"] if not isinstance(r, str) or r == "RErr"]) for o in pr["direct_connection"]]
        if mo == so or pr["guard"]:
            run.broken.append("witness %s no longer separates the model from the direct-connection specification (repaired? move it to FINE)" % name)
        wire.append({"name": name, "cache_size": k, "servers": ns, "ops": ops, "why": why, "model": pr, "needs_wire_confirmation": True})
    for (name, k, ns, ops), pr in zip(FINE, preds[len(WITNESSES):]):
        mo = [(o["kind"], o["client"], [r for r in o["replies"] if not isinstance(r, str) or r == "RErr"]) for o in pr["client_obs"]]
        so = [(o["kind"], o["client"], [r for r in o["replies"] if not isinstance(r, str) or r == "RErr"]) for o in pr["direct_connection"]]
        if mo != so:
            run.broken.append("scenario %s (expected to behave like a direct connection) differs in the model" % name)
        wire.append({"name": name, "cache_size": k, "servers": ns, "ops": ops, "why": "investigated: behaves like a direct connection", "model": pr, "needs_wire_confirmation": False})
    return st, wire


def wire_cases(seed=1, n=50):
    """Entry point for the wire harness (to be plugged in): programs + model predictions, JSON-comparable."""
    import random
    rng = random.Random(seed)
    progs = []
    for i in range(n):
        k = rng.choice([1, 2, 8])
        ns = rng.choice([1, 2, 3])
        progs.append({"k": k, "servers": ns, "ops": gen_program(rng, rng.choice([2, 3]), ns, k, 10, i % 4 == 3)})
    progs += [{"k": k, "servers": ns, "ops": ops, "name": name} for (name, k, ns, ops, _) in WITNESSES]
    progs += [{"k": k, "servers": ns, "ops": ops, "name": name} for (name, k, ns, ops) in FINE]
    for p, pr in zip(progs, predict(progs, "c08w")):
        p["prediction"] = pr
        p["sql"] = {str(st): stmt_sql(st) for st in sorted({o["st"] for o in p["ops"] if o["op"] == "Parse"})}
    return progs


# ------------------------------------------------------------------------------------------------ layer 2 on the wire
F11 = {
    "F11e": "F11e-more-statements-in-a-batch-than-cache",
    "F11h": "F11h-rest-of-batch-not-skipped-after-error",
    "lenient": "L-unknown-name-disconnects/close-unnamed-kept/own-deallocate-all-survived",
}


def classify_gap(prog):
    """which remaining known gap(s) of c08_refines_direct a program with guard = false can run into (syntactic classes)"""
    k, cls = prog["k"], set()
    sts = {o["st"] for o in prog["ops"] if o["op"] == "Parse"}
    if any(90 <= s <= 97 for s in sts):
        cls |= {"F11h", "lenient"}          # the rest of a failed batch is not skipped; Bind of a name that does not exist disconnects
    if 99 in sts:
        cls.add("lenient")                  # a client's own DEALLOCATE ALL does not remove its names from the client map
    batch, tabs = {}, {}
    for o in prog["ops"]:
        kd = o["op"]
        if kd == "Sync":
            b = batch.pop(o["c"], [])
            need, known, openp = 0, set(), set()
            t = tabs.setdefault(o["c"], set())
            for x in b:
                if x["op"] == "Parse":
                    need += 1; known.add(x["n"]); t.add(x["n"])
                elif x["op"] in ("Bind", "Describe"):
                    if x["n"] not in t:
                        cls |= {"lenient", "F11h"}
                    if x["n"] not in known:
                        need += 1; known.add(x["n"])
                    if x["op"] == "Bind":
                        openp.add(x.get("p", 0))
                elif x["op"] == "Close":
                    t.discard(x["n"]); known.discard(x["n"])
                    if x["n"] == 0:
                        cls.add("lenient")
                elif x["op"] == "CloseP":
                    openp.discard(x.get("p", 0))
                elif x["op"] in ("Execute", "DescribeP") and x.get("p", 0) not in openp:
                    cls |= {"lenient", "F11h"}      # 34000: an error in the middle of a batch
            if need > k:
                cls.add("F11e")
        elif kd != "Cleanup":
            batch.setdefault(o["c"], []).append(o)
    return cls


def pynorm(obs_list):
    """python twin of Cache.norm_obs on one client's observations"""
    out = []
    for kind, rs in obs_list:
        if kind == "Killed":
            out.append("Killed")
        else:
            data = [r for r in rs if r in ("RErr", "RDescrP") or (isinstance(r, tuple) and r[0] in ("RRow", "RDescr"))]
            out.append((tuple(data), rs.count("R1"), rs.count("R2"), rs.count("R3"), rs.count("RZ")))
    return out


def wire_tie(run, quick, extra=()):
    ok, blog, bins = vlib.cargo_build(["wire"])
    if not ok:
        run.violation("tie-broken", "wire harness does not build against /repo", {"correspondence": "wire harness build", "log": blog[-2000:]}, found_input=False)
        return {}
    wire = bins["wire"]
    rng = run.rng
    progs = [{"name": n, "k": k, "servers": ns, "ops": CW.atomicize(ops)} for (n, k, ns, ops, _) in WITNESSES] + \
            [{"name": n, "k": k, "servers": ns, "ops": CW.atomicize(ops)} for (n, k, ns, ops) in FINE] + list(extra)
    nhand = len(progs)
    for i in range(70 if quick else 1200):
        k = rng.choice([1, 1, 2, 2, 8])
        ns = rng.choice([1, 2, 3])
        wild = i % 3 == 2
        ops = CW.atomicize(gen_program(rng, rng.choice([2, 2, 3]), ns, k, rng.choice([5, 8, 12]) if not wild else rng.choice([8, 14, 20]), wild))
        if any(o["op"] == "Sync" for o in ops):
            progs.append({"name": "gen%d%s" % (i, "w" if wild else ""), "k": k, "servers": ns, "ops": ops})
    allops = [o for p in progs for o in p["ops"]]
    portal_cov = {"binds_named_portal": sum(1 for o in allops if o["op"] == "Bind" and o.get("p", 0) != 0),
                  "binds_portal_named_like_its_statement": sum(1 for o in allops if o["op"] == "Bind" and o.get("p", 0) == o["n"] != 0),
                  "close_portal": sum(1 for o in allops if o["op"] == "CloseP"),
                  "describe_portal": sum(1 for o in allops if o["op"] == "DescribeP"),
                  "execute_named_portal": sum(1 for o in allops if o["op"] == "Execute" and o.get("p", 0) != 0)}
    preds = predict(progs, "c08wt")
    res = W.run_scenarios(wire, [CW.scenario(p) for p in progs], timeout=120)
    st = {"scenarios": len(progs), "hand_made": nhand, "agree_with_model": 0, "set_aside_reconnect": 0, "guard_true": 0, "guard_true_like_direct": 0,
          "guard_false_like_direct": 0, "guard_false_differs_known_class": 0, "syncs": 0, "executes_checked_by_monitor": 0, "backend_msgs_compared": 0,
          "known_classes_seen": {}, "portal_ops": portal_cov}
    for p, pr, r in zip(progs, preds, res):
        rep = {"input": {"k": p["k"], "servers": p["servers"], "ops": p["ops"], "name": p["name"]}}
        if "harness_error" in r:
            r = W.run_scenario(wire, CW.scenario(p), timeout=180)
            if "harness_error" in r:
                run.broken.append("wire harness: %s on %s" % (r["harness_error"], p["name"]))
                continue
        obs = CW.observe(p, r)
        if obs["reopened"]:
            st["set_aside_reconnect"] += 1
            continue
        # (1) model-free monitor: never a wrong statement
        if obs["monitor"]:
            run.violation("counterexample", "an Execute ran a statement other than the one this client most recently prepared under the bound name: %s" % obs["monitor"][0],
                          dict(rep, monitor=obs["monitor"], correspondence="monitor"))
            return st
        # (2) model = implementation (client replies and per-connection backend logs)
        d = CW.diff(p, obs, pr)
        if d:
            a0 = CW.normalise_obs(obs)
            spec0 = CW.normalise_obs({"clients": {c: [o for o in pr["direct_connection"] if o["client"] == c] for c in {o["client"] for o in pr["direct_connection"]}}})
            like0 = all(pynorm(a0.get(c, [])) == pynorm(spec0.get(c, [])) for c in set(a0) | set(spec0))
            if (pr["guard"] or p["name"].startswith("fixed-")) and not like0:
                run.violation("counterexample", "pgcat with statement caching differs from a direct connection (and from the model) on %s, a program inside the guard of c08_refines_direct / a repaired scenario: %s"
                              % (p["name"], d[0][:400]), dict(rep, impl={str(c): v for c, v in a0.items()}, direct={str(c): v for c, v in spec0.items()}, differences=d[:6]))
            else:
                run.violation("tie-broken", "cache model and pgcat differ on %s: %s" % (p["name"], d[0][:400]),
                              dict(rep, correspondence="coq/Prep/Cache.v vs pgcat on the wire", differences=d[:6]))
            return st
        st["agree_with_model"] += 1
        run.cov["traces_validated_against_impl"] += 1
        a = CW.normalise_obs(obs)
        st["syncs"] += sum(len(v) for v in a.values())
        st["executes_checked_by_monitor"] += sum(1 for v in a.values() for _, rs in v for x in rs if isinstance(x, tuple) and x[0] == "RRow")
        st["backend_msgs_compared"] += sum(len(v) for v in obs["conns"].values())
        # (3) implementation vs a direct connection (the property itself), classified by the theorem's guard
        spec = CW.normalise_obs({"clients": {c: [o for o in pr["direct_connection"] if o["client"] == c] for c in {o["client"] for o in pr["direct_connection"]}}})
        like = all(pynorm(a.get(c, [])) == pynorm(spec.get(c, [])) for c in set(a) | set(spec))
        if pr["guard"]:
            st["guard_true"] += 1
            if like:
                st["guard_true_like_direct"] += 1
            else:
                run.violation("counterexample", "pgcat with statement caching differs from a direct connection on a program inside the guard of c08_refines_direct (%s)" % p["name"],
                              dict(rep, impl={str(c): v for c, v in a.items()}, direct={str(c): v for c, v in spec.items()}))
                return st
        elif like:
            st["guard_false_like_direct"] += 1
            if p["name"].startswith("F11") or p["name"].startswith("L-"):
                run.broken.append("known-defect witness %s now behaves like a direct connection on the wire (repaired? move it to FINE and update known classes)" % p["name"])
        elif p["name"].startswith("fixed-"):
            run.violation("counterexample", "regression: the repaired scenario %s differs from a direct connection again" % p["name"],
                          dict(rep, impl={str(c): v for c, v in a.items()}, direct={str(c): v for c, v in spec.items()}))
            return st
        else:
            cls = classify_gap(p)
            if not cls:
                run.violation("counterexample", "pgcat with statement caching differs from a direct connection on %s, outside every known class" % p["name"],
                              dict(rep, impl={str(c): v for c, v in a.items()}, direct={str(c): v for c, v in spec.items()}))
                return st
            st["guard_false_differs_known_class"] += 1
            if p["name"].startswith("F11"):
                st.setdefault("witnesses_reproduced", []).append(p["name"])
            for x in cls:
                st["known_classes_seen"][x] = st["known_classes_seen"].get(x, 0) + 1
    # every hand-made witness must still separate pgcat from a direct connection (else: fixed -> update the model)
    return st


def wire_nonutf8(run, wire):
    """Non-UTF-8 statement names / portals / query texts on the wire with statement caching on (legitimate under client_encoding
    LATIN1 / SQL_ASCII).  Model-free monitors: (M1) the Bind the backend receives is the client's Bind with only the statement
    name and the length field changed; (M2) the same for Parse; (M3) two different query texts never share a PGCAT statement;
    (M4) a client never receives another client's replies.  A failure is
    a VIOLATION (regression of 15e9536 / a7561f2); the residual name-collision class prints the known F8-lossy-utf8 line."""
    toml = W.make_toml(general={"connect_timeout": 4000}, pools={"db": {"opts": {"prepared_statements_cache_size": 4},
                       "users": [{"username": "u", "password": "pw", "pool_size": 1}], "shards": [{"database": "db0", "servers": [["b0", "primary"]]}]}})

    def conn(c): return {"op": "connect", "c": c, "params": {"user": "u", "database": "db"}, "password": "pw", "timeout_ms": 4000}
    def send(c, frames): return {"op": "send", "c": c, "msgs": [{"raw": f.hex()} for f in frames]}
    def recv(c, to=1500): return {"op": "recv", "c": c, "until": "Z", "timeout_ms": to, "label": "sync"}
    SYNC, EXEC = L.frame(b"S", b""), L.frame(b"E", b"\0\0\0\0\0")
    cases = []
    for nm, portal in ((b"caf\xe9", b""), (b"\xe9" * 5, b""), (b"s1", b"p\xe9"), (b"\xff", b"\xfe\xfd")):
        p, b = L.parse_msg(nm, b"SELECT 10", [10]), L.bind_msg(portal, nm, [], [], [])
        if nm == b"\xe9" * 5:
            b = L.frame(b"B", b[5:] + SYNC + SYNC)         # ten trailing bytes = two Sync frames: smuggled if the length is 10 short
        ex = L.frame(b"E", portal + b"\0\0\0\0\0")
        cases.append(("bind", nm, portal, p, b,
                      [conn("c0"), conn("c1"), send("c0", [p, SYNC]), recv("c0"), send("c0", [b, ex, SYNC]), recv("c0"),
                       send("c1", [L.frame(b"Q", b"SELECT 77\0")]), recv("c1")]))
    q0, q1 = L.parse_msg(b"s1", b"SELECT '\xe9'", []), L.parse_msg(b"s1", b"SELECT '\xe8'", [])
    bb = L.bind_msg(b"", b"s1", [], [], [])
    cases.append(("query", b"s1", b"", q0, q1, [conn("c0"), conn("c1"), send("c0", [q0, bb, EXEC, SYNC]), recv("c0"), send("c1", [q1, bb, EXEC, SYNC]), recv("c1")]))
    # residual known class: two NAMES of one client with the same lossy rendering
    n0, n1 = L.parse_msg(b"\xe9", b"SELECT 10", [10]), L.parse_msg(b"\xe8", b"SELECT 11", [11])
    cases.append(("names", b"\xe9", b"", n0, n1, [conn("c0"), send("c0", [n0, n1, SYNC]), recv("c0"),
                                                  send("c0", [L.bind_msg(b"", b"\xe9", [], [], []), EXEC, SYNC]), recv("c0")]))
    residual = []
    res = W.run_scenarios(wire, [{"backends": [{"name": "b0"}], "toml": toml, "hex": True, "steps": st} for *_, st in cases], timeout=60)
    bad = []
    for (kind, nm, portal, m0, m1, _), r in zip(cases, res):
        if "harness_error" in r:
            run.broken.append("wire harness (non-UTF-8 scenarios): %s" % r["harness_error"])
            continue
        msgs = [(e["tag"], bytes.fromhex(e["detail"].get("raw") or "")) for e in r.get("events", []) if e.get("ev") == "msg"]
        recvs = [(e["who"], e["outcome"], [f.get("t") for f in e["frames"]]) for e in r.get("events", []) if e.get("ev") == "recv" and e.get("label") == "sync"]
        pnames = [raw[5:raw.index(b"\0", 5)] for t, raw in msgs if t == "P"]
        if kind == "names":
            rows = [f.get("cols") for e in r.get("events", []) if e.get("ev") == "recv" for f in e["frames"] if f.get("t") == "D"]
            if not rows or rows[0][2] != "SELECT 10":
                residual.append("statement names \\xe9 and \\xe8 of one client are keyed by the same lossy rendering: Bind \\xe9 ran %s (a direct connection: SELECT 10)" % (rows[0][2] if rows else "nothing"))
            continue
        if kind == "bind":
            want_p = L.splice(m0, pnames[0] if pnames else b"PGCAT_0", 0, 0)
            want_b = L.splice(m1, pnames[0] if pnames else b"PGCAT_0", 0, 1)
            got_b = [raw for t, raw in msgs if t == "B"]
            if [raw for t, raw in msgs if t == "P"][:1] != [want_p]:
                bad.append("Parse named %r reached the backend as %s, the name/length splice is %s" % (nm, msgs[0][1].hex() if msgs else None, want_p.hex()))
            if got_b[:1] != [want_b]:
                bad.append("Bind (statement %r, portal %r) %s reached the backend as %s, the name/length splice is %s; backend then saw %s; replies %s"
                           % (nm, portal, m1.hex(), got_b[0].hex() if got_b else None, want_b.hex(), [t for t, _ in msgs[2:]], recvs))
            c1 = [x for x in recvs if x[0] == "c1"]
            if c1 and (c1[0][1] != "ok" or "D" not in c1[0][2]):
                bad.append("after it, another client's simple query on that server connection got %s (a direct connection: its own row)" % (c1[0],))
        else:
            sent = [raw for t, raw in msgs if t == "P"]
            if len(sent) != 2 or len({raw[5:raw.index(b"\0", 5)] for raw in sent}) != 2:
                bad.append("two clients prepared different texts %s / %s: the backend received %d Parse(s) %s — the texts were rewritten by from_utf8_lossy and share one cache entry"
                           % (m0[8:-3].hex(), m1[8:-3].hex(), len(sent), [x.hex() for x in sent]))
    if bad:
        run.violation("counterexample", "statement caching with non-UTF-8 names / portals / query texts (repaired by 15e9536, a7561f2) differs from a direct connection again: "
                      + " | ".join(bad)[:1500], {"input": {"scenarios": "props/c08.py wire_nonutf8"}, "failures": bad})
    if residual:
        run.known_finding("F8-lossy-utf8 residual: " + residual[0] + "; Parse with bytes after its parameter types is trimmed (codec leg)", key="F8-lossy-utf8")
    return {"scenarios": len(cases), "failures": len(bad)}


# ------------------------------------------------------------------------------------------------ check
def check(run):
    quick = run.tier == "quick"
    run.assumptions += [
        "Coq 8.16.1 kernel + vm_compute; no axioms (Print Assumptions: closed under the global context)",
        "Codec.v is a hand transcription of src/messages.rs (Parse/Bind/Describe/Close codecs, Bind::rename, get_name, get_hash input); validated on every run against the real functions on structured and malformed bytes",
        "chk=true models a build with overflow checks (the harness' dev profile); pgcat's release build (chk=false) is compared in the thorough tier only",
        "SipHash-1-3 collisions proper are outside the codec theorems (hstream injectivity is proved; hash_collision_free is a hypothesis of the cache theorems)",
        "Rust's String::from_utf8_lossy is modelled by Codec.lossy (validated by the non-UTF-8 stream); theorems carry the guard cleanb (text unchanged by from_utf8_lossy)",
        "length fields in the malformed stream are bounded by 2^27 and Bind parameter lengths by 2^20 (the real code allocates that much before checking)",
        "layer 2 (Cache.v) is a hand transcription of client.rs buffer_*/'S' arm, server.rs register_prepared_statement/recv and pool.rs PreparedStatementCache, tied on every run to pgcat in-process + mock PostgreSQL backends (harness bin wire): per-Sync client replies and per-connection backend message logs must be equal",
        "wire programs are batch-atomic (a client's buffered messages travel with its Sync): interleaved buffering of several clients is covered by the proof and by model-level sampling only; the transaction->connection assignment is forced with blocker clients and read back from the backend log",
        "harness/src/mockpg.rs is the executable PostgreSQL session model (named statements, 42P05/26000/34000, skip-until-Sync, DEALLOCATE ALL); it is not validated against a real PostgreSQL",
    ]
    run.cov["trusted_base"] = ["coqc 8.16.1 kernel", "vm_compute", "coq/Prep/Codec.v (hand transcription, tied)", "coq/Prep/Cache.v (hand transcription, tied on the wire)", "harness/src/bin/wire.rs + mockpg.rs + props/c08wire.py",
                               "harness/src/bin/codec.rs", "props/c08.py + props/c08lib.py (generators, SipHash-1-3 and splice oracles, Rust Debug parser)",
                               "Print Assumptions: Closed under the global context (all theorems)"]
    have = [f for f in COQ_FILES if os.path.exists(os.path.join(vlib.COQ, f))]
    proof_ok, log = vlib.prove(run, have, "Prep/Props.v", extra_targets=["Prep/CodecObs.vo"])
    run.log("proof ok=%s (%d obligations)" % (proof_ok, run.cov.get("obligations", 0)))
    ok, blog, bins = vlib.cargo_build(["codec"])
    if not ok:
        run.violation("tie-broken", "harness does not build against /repo (API used by the correspondence changed)",
                      {"correspondence": "codec harness build", "log": blog[-3000:]}, found_input=False)
        return
    if not proof_ok and not run.broken:
        # the model itself may still evaluate: run the monitor part to look for a failing input
        okm, _ = vlib.coq_make(["Prep/CodecObs.vo"])
        if not okm:
            run.violation("proof-broken", "coq/Prep does not compile", {"theorem": "Prep/Props.v", "coq_log": log[-2500:]}, found_input=False)
            return
    tie = layer1(run, bins["codec"], quick)
    run.log("layer 1 (dev build): %d evaluations, %d distinct" % (tie.evals, len(tie.distinct)))
    evals, distinct, dist = tie.evals, len(tie.distinct), dict(tie.dist)
    if not quick and not run.violations:
        ok2, blog2, bins2 = vlib.cargo_build(["codec"], release=True, timeout=3000)
        if ok2:
            t2 = layer1(run, bins2["codec"], True, chk=False, tag="release")
            evals += t2.evals
            distinct += len(t2.distinct)
            dist.update({"release:" + k: v for k, v in t2.dist.items()})
            tie.findings.update({k + "(release)": v for k, v in t2.findings.items()})
            run.log("layer 1 (release build, no overflow checks): %d evaluations" % t2.evals)
        else:
            run.broken.append("release build of the harness failed: " + blog2[-300:])

    # layer 2: model-level checks and the predictions prepared for the wire harness
    l2, wire = ({}, [])
    if not run.violations:
        okc, logc = vlib.coq_make(["Prep/CacheObs.vo"])
        if okc:
            npool = pool_tie(run, bins["codec"], quick)
            l2, wire = layer2(run, quick)
            l2["pool_cache_sequences_tied_to_impl"] = npool
            evals += l2.get("programs", 0) + len(wire) + npool
            run.log("layer 2 (model vs direct-connection spec): %s" % l2)
        else:
            run.broken.append("coq/Prep/CacheObs.v does not compile: " + logc[-300:])
    wt = {}
    if not run.violations and l2:
        wt = wire_tie(run, quick)
        evals += wt.get("scenarios", 0)
        run.log("layer 2 on the wire: %s" % wt)
        for (nm, k, ns, ops, why) in WITNESSES:
            if nm.startswith("F11") and not run.violations and nm in wt.get("witnesses_reproduced", []):
                fid = F11[nm.split("-")[0]]
                run.known_finding("%s confirmed on the wire (pgcat = model, differs from a direct connection): cache size %d, %s — %s" % (fid, k, prog_coq(ops), why.split(": ", 1)[-1][:260]), key=fid)
    if wt and not run.violations:
        okw, _, binsw = vlib.cargo_build(["wire"])
        if okw:
            wt["non_utf8_wire"] = wire_nonutf8(run, binsw["wire"])
    run.cov["layer2_wire"] = wt
    run.cov["layer2_model_level"] = l2
    run.cov["layer2_wire_scenarios"] = [{"name": w["name"], "cache_size": w["cache_size"], "servers": w["servers"], "ops": prog_coq(w["ops"]),
                                         "confirmed_on_wire": w["needs_wire_confirmation"], "why": w["why"],
                                         "model_client_obs": w["model"]["client_obs"], "direct_connection": w["model"]["direct_connection"]} for w in wire]

    f8 = []
    for k, v in sorted(tie.findings.items()):
        if k.startswith("bind-rename-nonutf8"):
            f8.append("Bind::rename takes the new length from the lossy-decoded name: %s renamed to %s -> %s (splice: %s)" % v)
        elif k.startswith("parse-noncanonical"):
            f8.append("a Parse with bytes after its parameter types is trimmed: %s -> %s (splice: %s)" % v)
        elif k.startswith("parse-nonutf8"):
            f8.append("non-UTF-8 query text / name is rewritten by from_utf8_lossy in buffer_parse: %s -> %s (splice: %s)" % v)
        elif k.startswith("parse-negative-count"):
            run.known_finding("F8c-negative-num-params Parse with a negative parameter count: the encoder used by buffer_parse %s (input %s)" % (v[1], v[0]), key="F8c-negative-num-params")
    if f8:
        run.known_finding("F8-lossy-utf8 statement caching decodes and re-encodes instead of splicing: " + "; ".join(f8), key="F8-lossy-utf8")

    run.cov["evaluations"] = evals
    run.cov["distinct_nontrivial"] = distinct
    run.cov["input_distribution"] = dist
    run.cov["skipped_bind_decodes_huge_param_len"] = getattr(tie, "skipped_big_alloc", 0)
    run.cov["samples"] = tie.samples[:8]
    run.cov["rule"] = ("layer 1: well-formed Parse/Bind/Describe/Close messages over %d names x %d queries (digits, quotes, empty, long, multi-byte UTF-8), 0..16 parameter types, "
                       "Binds with format codes / NULL / empty / binary parameters / result formats; malformed stream = every truncation of 4 seed messages, wrong length fields, "
                       "extra trailing bytes, removed terminators, bad counts, byte flips, %d non-UTF-8 strings, random bodies; each input run through the real decoder, encoder, rename, "
                       "get_name, get_hash AND the Coq model (vm_compute) AND the Python splice/SipHash oracles; near-collision groups from the old concatenation key. "
                       "distinct = distinct (op, bytes, new name) triples") % (len(NAMES), len(QUERIES), len(NONUTF8))

    if not proof_ok and not run.violations and not run.broken:
        run.violation("proof-broken", "Prep/Props.v no longer checks; the implementation agreed with the model and the monitors on every generated input",
                      {"theorem": "Prep/Props.v", "coq_log": log[-2500:]}, found_input=False)
    if not quick and proof_ok:
        vlib.coqchk(run, ["PV.Prep.Props"])


def replay(run, path):
    r = json.load(open(path))
    print(json.dumps(r, indent=1)[:3000])
    ok, blog, bins = vlib.cargo_build(["codec"])
    inp = r.get("input", {})
    if "ops" in inp and "k" in inp:
        okw, _, binsw = vlib.cargo_build(["wire"])
        p = {"name": inp.get("name", "replay"), "k": inp["k"], "servers": inp.get("servers", 1), "ops": CW.atomicize(inp["ops"])}
        (pr,) = predict([p], "c08rp")
        res = W.run_scenario(binsw["wire"], CW.scenario(p), timeout=120)
        obs = CW.observe(p, res)
        d = CW.diff(p, obs, pr)
        a = CW.normalise_obs(obs)
        spec = CW.normalise_obs({"clients": {c: [o for o in pr["direct_connection"] if o["client"] == c] for c in {o["client"] for o in pr["direct_connection"]}}})
        like = all(pynorm(a.get(c, [])) == pynorm(spec.get(c, [])) for c in set(a) | set(spec))
        print("replay: implementation", json.dumps({str(k): v for k, v in a.items()}))
        print("replay: model = implementation: %s; like a direct connection: %s; guard: %s; monitor: %s" % (not d, like, pr["guard"], obs["monitor"]))
        for x in d:
            print("   ", x[:600])
        return 0 if (not d and not obs["monitor"] and (like or not pr["guard"])) else 1
    if "op" in inp and "hex" in inp:
        b, m = bytes.fromhex(inp["hex"]), bytes.fromhex(inp.get("new_name_hex", ""))
        tie = Tie(run, bins["codec"], True, "replay")
        good = tie.go([(inp["op"], b, m)])
        print("replay:", "agrees now" if good else "still fails")
        return 0 if good else 1
    return 0
