"""C07 — broken replicas are banned and bypassed; service continues on healthy servers.

P: coq/Ban/{Model,Proofs,Tie,Props}.v — executable model of one pool's ban list (get loop,
   try_unban, ban, admin BAN/UNBAN, failures of checked-out servers) and theorems over every
   operation sequence, candidate order, outcome function and clock reading.
T2: the real pgcat (in-process, harness bin `wire`) over mock PostgreSQL backends in scripted
   fault modes.  Every client transaction / admin command of a schedule is one model operation;
   the environment choices the model quantifies over (which replica is popped first, whether a
   connection was fresh, at which second the clock was read) are read back from the trace where
   visible and enumerated otherwise: Coq prints EVERY observation the model allows from the
   observed ban list before the step (Ban/Tie.v tie_txn) and the driver checks membership of the
   observed (result, contact order, health-check flags, ban list afterwards).  Independently of
   the model, monitors evaluate the property's own sentences on the trace.
"""
import json, os, sys, time
import vlib
from props import wirelib as W

COQ_FILES = ["Ban/Model.v", "Ban/Proofs.v", "Ban/Tie.v", "Ban/Props.v"]
PREAMBLE = ("From PV Require Import Ban.Model Ban.Tie.\nFrom Coq Require Import ZArith List. Import ListNotations.\n"
            "Open Scope Z_scope.")
CONNECT_TO, HC_TO, STMT_TO = 300, 200, 300
FINDINGS = {
    "F10-unguarded-server-awaits": "server-facing awaits of a client task without any timeout: Server::sync_parameters (client.rs:1160), Server::checkin_cleanup "
                                   "(client.rs:1194/1304/1621) and Server::register_prepared_statement (client.rs:1803) call Server::query/recv with no bound; a server that "
                                   "accepts the bytes and never answers blocks the client task for ever (connect_timeout / healthcheck_timeout / statement_timeout do not apply), "
                                   "keeps the server connection checked out, and the server is not banned",
}
MODES = ["normal", "down", "hang", "hang_startup", "close_mid_reply", "slow500", "slow100", "error"]


# ----------------------------------------------------------------------------- topology
class Topo:
    """shards: list of lists of roles ('P' / 'R').  Address ids count up in configuration order
    (as pool.rs address_id does for a single pool); host = 127.0.0.(10+id)."""

    def __init__(self, shards, lb="random", hc=True, default_role="any", pool_size=2, ban_time=60, ps_cache=0, stmt_to=STMT_TO, hosts=None):
        self.shards, self.lb, self.hc, self.default_role, self.pool_size, self.ban_time, self.ps_cache = shards, lb, hc, default_role, pool_size, ban_time, ps_cache
        self.stmt_to = stmt_to    # only the self-test changes it (the oracle keeps assuming STMT_TO)
        self.hosts = hosts        # optional: host number per address id; servers may SHARE a host string (and differ in the port)
        self.addrs = []
        for s, roles in enumerate(shards):
            nr = 0
            for r in roles:
                i = len(self.addrs)
                name = ("p%d" % i) if r == "P" else ("r%d" % i)
                self.addrs.append({"id": i, "shard": s, "role": r, "name": name, "host": "127.0.0.%d" % (hosts[i] if hosts else 10 + i), "hostn": (hosts[i] if hosts else 10 + i)})
        self.by_name = {a["name"]: a for a in self.addrs}
        self.by_host = {a["host"]: a for a in self.addrs}     # only meaningful when hosts are distinct; see of()

    def of(self, b):
        """the address a ban-list entry (from the `bans` event) stands for: by mock name (resolved from the port) when known"""
        return self.by_name[b["name"]] if b.get("name") in self.by_name else self.by_host[b["host"]]

    def key(self):
        return ("/".join("".join(s) for s in self.shards), self.lb, self.hc, self.default_role, tuple(self.hosts or ()))

    def toml(self):
        general = {"connect_timeout": CONNECT_TO, "healthcheck_timeout": HC_TO, "healthcheck_delay": 0 if self.hc else 600000, "ban_time": self.ban_time}
        opts = {"default_role": self.default_role, "load_balancing_mode": "loc" if self.lb == "loc" else "random", "prepared_statements_cache_size": self.ps_cache}
        sh = []
        for s, roles in enumerate(self.shards):
            sh.append({"database": "d%d" % s, "servers": [[a["name"], "primary" if a["role"] == "P" else "replica"] for a in self.addrs if a["shard"] == s]})
        t = W.make_toml(general=general, pools={"db": {"opts": opts, "users": [{"username": "u", "password": "pw", "pool_size": self.pool_size, "statement_timeout": self.stmt_to}], "shards": sh}})
        for a in self.addrs:
            t = t.replace('["127.0.0.1", @PORT:%s@' % a["name"], '["%s", @PORT:%s@' % (a["host"], a["name"]))
        return t

    def coq_addr(self, a):
        return "(mkAddr %d %d %s %d)" % (a["id"], a["shard"], "Primary" if a["role"] == "P" else "Replica", a["hostn"])

    def coq_cfg(self):
        return "(mkCfg [%s] %d %d (DShard 0))" % ("; ".join(self.coq_addr(a) for a in self.addrs), len(self.shards), self.ban_time)

    def candidates(self, role, shard):
        sh = 0 if len(self.shards) == 1 else (shard if shard is not None else 0)
        want = {"replica": "R", "primary": "P"}.get(role)
        return [a for a in self.addrs if a["shard"] == sh and (want is None or a["role"] == want)]


def coq_reason(r):
    if r.startswith("AdminBan("):
        return "(AdminBan %s)" % r[9:-1]
    return r


def coq_bl(topo, bans):
    return "[" + "; ".join("(%s, (%s, %d))" % (topo.coq_addr(topo.of(b)), coq_reason(b["reason"]), b["ts"]) for b in bans) + "]"


def outcome_options(mode, busy, flags=(), fresh_only=False):
    """flags: 'stale' = the backend refused connections earlier (its idle connections in the pool are dead);
    'pending' = it hung during startup earlier (bb8 still waits for that connection attempt, which has no timeout
    of its own, instead of starting a new one)."""
    T, F = "true", "false"
    if mode in ("normal", "error", "slow100"):
        o = ["Conn %s HcOk" % T, "Conn %s HcOk" % F]
    elif mode == "down":
        o = ["ConnFail", "Conn %s HcFail" % T, "Conn %s HcFail" % F]
    elif mode == "hang_startup":
        o = ["ConnFail", "Conn %s HcOk" % T, "Conn %s HcOk" % F]
    elif mode in ("hang", "slow500"):
        o = ["Conn %s HcTimeout" % T, "Conn %s HcTimeout" % F]
    elif mode == "close_mid_reply":
        o = ["Conn %s HcFail" % T, "Conn %s HcFail" % F]
    else:
        raise ValueError(mode)
    if (busy or "pending" in flags) and "ConnFail" not in o:
        o = o + ["ConnFail"]
    if "stale" in flags:
        o = o + [x for x in ("Conn %s HcFail" % T, "Conn %s HcFail" % F) if x not in o]
    if fresh_only:
        # healthcheck_delay = 600 s: every connection's last activity is recent, a health check happens only when forced
        o = [x for x in o if not x.startswith("Conn false")]
    return o


# ----------------------------------------------------------------------------- statement shapes under fault
SHAPES = ["simple", "multi", "ext_parse", "ext_rows", "ext_sync", "copyin_G", "copyin_data", "copyin_done", "copyin_fail", "copyout"]
FAULTS = ["hang", "mid", "die"]          # never answers / half of the reply then closes / closes without a reply
SHAPE_WAIT = STMT_TO + 2000              # "within statement_timeout + slack"


def shape_script(shape, fault, lab):
    """One client transaction of the given shape whose server breaks at the point the shape names, on WHICHEVER
    backend serves it (the fault rides on the statement text or on a message tag armed on every backend), so the
    other candidate stays healthy for the ordinary transactions that follow.
    Returns (arm_before, arm_after_G, phases): arm_* = (tags, kind) for the mock's fault_on, phases = client steps."""
    D = {"hang": "hang", "mid": "rows=60, size=100, mid", "die": "sleep=120, close"}[fault]
    K = {"hang": "hang", "mid": "mid", "die": "close"}[fault]
    send = lambda msgs: {"op": "send", "msgs": msgs}
    ext = lambda sql: [{"t": "P", "name": "", "sql": sql, "types": []}, {"t": "B", "portal": "", "name": "", "params": []}, {"t": "E", "portal": "", "max": 0}, {"t": "S"}]
    copy_q = [send([{"t": "Q", "sql": "COPY t FROM STDIN /*%s*/" % lab}]), {"op": "recv", "until": "G", "timeout_ms": 2000}]
    small = {"t": "d", "data": "1\tone\n"}
    big = {"t": "d", "data": "x" * 4000 + "\n"}
    if shape == "simple":
        return None, None, [send([{"t": "Q", "sql": "SELECT 1 /*%s*/ /*mock: %s*/" % (lab, D)}])]
    if shape == "multi":
        return None, None, [send([{"t": "Q", "sql": "SELECT 1 /*%s*/; SELECT 2 /*mock: %s*/" % (lab, D)}])]
    if shape == "ext_parse":       # before ParseComplete
        return ("P", K), None, [send(ext("SELECT 1 /*%s*/" % lab))]
    if shape == "ext_rows":        # at Execute: before / in the middle of the rows
        return None, None, [send(ext("SELECT 1 /*%s*/ /*mock: %s*/" % (lab, D)))]
    if shape == "ext_sync":        # rows and CommandComplete sent, before ReadyForQuery
        return ("S", K), None, [send(ext("SELECT 1 /*%s*/" % lab))]
    if shape == "copyin_G":        # right after CopyInResponse: whatever comes next is not answered
        return None, ("dcf", K), copy_q + [send([small, small, {"t": "c"}])]
    if shape == "copyin_data":     # while CopyData is streamed (pgcat forwards it in > 8 KB batches), CopyDone follows
        return ("d", K), None, copy_q + [send([big, big, big]), {"op": "sleep", "ms": 40}, send([big, {"t": "c"}])]
    if shape == "copyin_done":     # after CopyDone
        return ("c", K), None, copy_q + [send([small, {"t": "c"}])]
    if shape == "copyin_fail":     # after CopyFail
        return ("f", K), None, copy_q + [send([small, {"t": "f", "msg": "client gives up"}])]
    if shape == "copyout":         # in the middle of the CopyData stream of COPY .. TO STDOUT
        d = {"hang": "rows=300, size=100, mid_hang", "mid": "rows=300, size=100, mid", "die": "sleep=120, close"}[fault]
        return None, None, [send([{"t": "Q", "sql": "COPY t TO STDOUT /*%s*/ /*mock: %s*/" % (lab, d)}])]
    raise ValueError(shape)


# ----------------------------------------------------------------------------- scenario building
def wire_mode(m):
    """'down' is played by the mock's `down_held`: connections are refused by the kernel and existing sessions are closed,
    but the port stays reserved - 16 scenario processes run side by side and a port freed by `down` can be handed to a
    mock of ANOTHER scenario, whose rows would then show up here."""
    return "slow" if m.startswith("slow") else ("down_held" if m == "down" else m)


def build(topo, hl, initial_modes=None, gap=6):
    """hl: list of high-level steps (dicts).  Returns the wire scenario; hl steps get 'k' (index)."""
    backends = []
    for a in topo.addrs:
        b = {"name": a["name"], "host": a["host"]}
        m = (initial_modes or {}).get(a["name"])
        if m:
            b["mode"] = wire_mode(m)
            if m.startswith("slow"):
                b["slow_ms"] = int(m[4:])
        backends.append(b)
    steps = [{"op": "connect", "c": "adm", "params": {"user": "admin", "database": "pgcat"}, "password": "adminpw"},
             # the first ordinary client validates the pool (connects to every server); keep it out of any window
             {"op": "connect", "c": "warm", "params": {"user": "u", "database": "db", "application_name": "pgcat"}, "password": "pw", "timeout_ms": 4000},
             {"op": "send", "c": "warm", "msgs": [{"t": "X"}]}, {"op": "sleep", "ms": 10}]
    for k, s in enumerate(hl):
        s["k"] = k
        lab = "s%d" % k
        op = s["op"]
        if op == "mode":
            m = s["mode"]
            st = {"op": "backend", "b": s["b"], "mode": wire_mode(m)}
            if m.startswith("slow"):
                st["slow_ms"] = int(m[4:])
            steps += [st, {"op": "sleep", "ms": 35}]
        elif op == "hang_match":
            steps += [{"op": "backend", "b": s["b"], "hang_match": s.get("text")}]
        elif op == "sleep":
            steps += [{"op": "sleep", "ms": s["ms"]}]
        elif op == "sleep_frac":
            steps += [{"op": "sleep_until_frac", "ms": s["ms"]}]
        elif op == "txn":
            c = s.get("c") or ("c%d" % k)
            if not s.get("reuse"):
                steps += [{"op": "sleep", "ms": gap},
                          {"op": "connect", "c": c, "params": {"user": "u", "database": "db", "application_name": s.get("app", "pgcat")}, "password": "pw", "timeout_ms": 4000}]
            if s.get("role"):
                steps += [{"op": "send", "c": c, "msgs": [{"t": "Q", "sql": "SET SERVER ROLE TO '%s'" % s["role"]}]}, {"op": "recv", "c": c, "until": "Z", "timeout_ms": 3000}]
            if s.get("shard") is not None:
                steps += [{"op": "send", "c": c, "msgs": [{"t": "Q", "sql": "SET SHARD TO '%d'" % s["shard"]}]}, {"op": "recv", "c": c, "until": "Z", "timeout_ms": 3000}]
            sql = s.get("sql", "SELECT 1") + " /*%s*/" % lab
            msgs = s.get("msgs") or [{"t": "Q", "sql": sql}]
            if s.get("shape"):
                arm0, arm1, phases = shape_script(s["shape"], s["fault"], lab)
                arm = lambda a: [{"op": "backend", "b": x["name"], "fault_on": ({"tags": a[0], "kind": a[1]} if a else None)} for x in topo.addrs]
                if arm0:
                    steps += arm(arm0)
                steps += [{"op": "bans", "label": lab + ":pre"}]
                for ph in phases:
                    ph = dict(ph)
                    if ph["op"] in ("send", "recv"):
                        ph["c"] = c
                    steps.append(ph)
                    if ph["op"] == "recv" and arm1:
                        steps += arm(arm1)
                if s.get("fate"):
                    steps += ([{"op": "close", "c": c}] if s["fate"] == "close" else [{"op": "sleep", "ms": 30}, {"op": "close", "c": c, "rst": True}]) + [{"op": "sleep", "ms": s.get("settle", 480)}]
                else:
                    steps += [{"op": "recv", "c": c, "until": "Z", "timeout_ms": s.get("wait", SHAPE_WAIT), "label": lab}]
                steps += [{"op": "bans", "label": lab + ":post"}] + arm(None)
                if not s.get("fate"):
                    steps += [{"op": "send", "c": c, "msgs": [{"t": "X"}]}]
            elif s.get("arm"):
                armx = lambda a: [{"op": "backend", "b": x["name"], "fault_on": ({"tags": a[0], "kind": a[1]} if a else None)} for x in topo.addrs if x["role"] == "R"]
                steps += armx(s["arm"]) + [{"op": "bans", "label": lab + ":pre"}, {"op": "send", "c": c, "msgs": msgs},
                                          {"op": "recv", "c": c, "until": "Z", "timeout_ms": s.get("wait", SHAPE_WAIT), "label": lab}, {"op": "bans", "label": lab + ":post"}] + armx(None)
            elif s.get("fate"):
                # the client goes away while its statement is in flight: closes right after sending, or resets
                # its socket (SO_LINGER 0) 30 ms later; nothing is read.  The ban list is looked at after `settle` ms.
                gone = [{"op": "close", "c": c}] if s["fate"] == "close" else [{"op": "sleep", "ms": 30}, {"op": "close", "c": c, "rst": True}]
                steps += [{"op": "bans", "label": lab + ":pre"}, {"op": "send", "c": c, "msgs": msgs}] + gone + \
                         [{"op": "sleep", "ms": s.get("settle", 480)}, {"op": "bans", "label": lab + ":post"}]
            else:
                steps += [{"op": "bans", "label": lab + ":pre"}, {"op": "send", "c": c, "msgs": msgs},
                          {"op": "recv", "c": c, "until": "Z", "timeout_ms": s.get("wait", 5000), "label": lab}, {"op": "bans", "label": lab + ":post"}]
                if not s.get("keep"):
                    steps += [{"op": "send", "c": c, "msgs": [{"t": "X"}]}]
        elif op in ("ban", "unban", "showbans", "admin_raw"):
            if op == "ban":
                sql = "BAN %s %d" % (topo.by_name[s["b"]]["host"], s["secs"])
            elif op == "unban":
                sql = "UNBAN %s" % topo.by_name[s["b"]]["host"]
            elif op == "showbans":
                sql = "SHOW BANS"
            else:
                sql = s["sql"]
            steps += [{"op": "bans", "label": lab + ":pre"}, {"op": "send", "c": "adm", "msgs": [{"t": "Q", "sql": sql}]},
                      {"op": "recv", "c": "adm", "until": "Z", "timeout_ms": 3000, "label": lab}, {"op": "bans", "label": lab + ":post"}]
        elif op == "raw":
            steps += s["steps"]
        else:
            raise ValueError(op)
    steps += [{"op": "snapshot", "label": "end"}]
    return {"backends": backends, "toml": topo.toml(), "steps": steps, "workers": 2}


def modes_at(topo, hl, initial_modes):
    """mode of every backend at each high-level step (static)."""
    cur = {a["name"]: (initial_modes or {}).get(a["name"], "normal") for a in topo.addrs}
    flags = {a["name"]: set() for a in topo.addrs}
    FL = {"down": "stale", "hang_startup": "pending"}
    for n, m in cur.items():
        if m in FL:
            flags[n].add(FL[m])
    out = []
    for s in hl:
        if s["op"] == "mode":
            cur[s["b"]] = s["mode"]
            if s["mode"] in FL:
                flags[s["b"]].add(FL[s["mode"]])
        d = dict(cur)
        d["#flags"] = {n: sorted(f) for n, f in flags.items() if f}
        out.append(d)
    return out


# ----------------------------------------------------------------------------- trace reading
def windows(res):
    """label -> {'pre': bans event, 'post': bans event, 'events': [events strictly between]}"""
    ev = res.get("events", [])
    pm = {port: name for name, port in (res.get("ports") or {}).items()}
    for e in ev:
        if e.get("ev") == "bans":
            for p in e.get("pools", []):
                for b in p["bans"]:
                    b["name"] = pm.get(b["port"])
    out = {}
    pre = {}
    for i, e in enumerate(ev):
        if e.get("ev") == "bans" and isinstance(e.get("label"), str):
            lab, _, which = e["label"].partition(":")
            if which == "pre":
                pre[lab] = i
            elif which == "post" and lab in pre:
                out[lab] = {"pre": ev[pre[lab]], "post": e, "events": ev[pre[lab] + 1:i]}
    return out


def pool_bans(e):
    for p in e.get("pools", []):
        if p["pool"].endswith("@db") or p["pool"].startswith("u@"):
            return p["bans"]
    return e["pools"][0]["bans"] if e.get("pools") else []


def classify_client(frames, outcome):
    errs = [f for f in frames if f.get("t") == "E"]
    rows = [f for f in frames if f.get("t") == "D"]
    if rows and outcome == "ok":
        return ("ok", rows[0]["cols"][0])
    if outcome == "ok" and not errs and any(f.get("t") == "C" for f in frames):
        return ("ok_err", None)          # a statement without rows (BEGIN, SET): the server is the one that logged it
    if errs:
        m = (errs[0].get("fields") or {}).get("M", "")
        sev = (errs[0].get("fields") or {}).get("S", "")
        if m.startswith("could not get connection from the pool"):
            return ("refused", m)
        if "error receiving data from server" in m:
            return ("exec", "KRecv")
        if m == "pool statement timeout":
            return ("exec", "KStmtTimeout")
        if m == "mock error":
            return ("ok_err", None)
        return ("other_error", sev + ":" + m)
    if outcome in ("closed", "closed-in-frame"):
        return ("closed_silent", None)
    if outcome == "timeout":
        return ("blocked", None)
    return ("other", outcome)


def observe_txn(topo, s, w):
    lab = "s%d" % s["k"]
    frames, outcome = [], "missing"
    contacts, hc, stmt_at = [], {}, None
    names = set(topo.by_name)
    for e in w["events"]:
        if e.get("ev") == "recv" and e.get("label") == lab:
            frames, outcome = e["frames"], e["outcome"]
        who = e.get("who")
        if who in names and e.get("ev") in ("open", "msg") and not (e.get("ev") == "msg" and e.get("tag") == "X"):   # X: pgcat dropping a bad connection, may arrive late
            if who not in contacts:
                contacts.append(who)
            if e.get("ev") == "msg":
                sql = (e.get("detail") or {}).get("sql") or ""
                if e.get("tag") == "Q" and sql == ";":
                    hc[who] = True
                if ("/*%s*/" % lab) in sql:
                    stmt_at = who
    kind, arg = classify_client(frames, outcome)
    if kind == "ok" and arg not in names:
        kind, arg = "other", "row from a backend of another scenario: %s" % arg      # never seen since 'down' keeps its port
    return {"kind": kind, "arg": arg, "contacts": contacts, "hc": hc, "stmt_at": stmt_at,
            "pre": pool_bans(w["pre"]), "post": pool_bans(w["post"]), "t0": w["pre"]["unix_ms"], "t1": w["post"]["unix_ms"]}


def gone_verdict(topo, s, ob, modes):
    """The client left before any reply: what happened is read from the backend that logged the statement.
    kill = the statement carries /*mock: sleep=.., close*/ (the session dies after the checkout)."""
    srv = ob["stmt_at"]
    ob["fate"] = s["fate"]
    if srv is None:
        # no backend saw the statement: the checkout was refused (or it went into a dead socket, see `unobservable`)
        ob["kind"], ob["arg"] = "refused", "(client gone; no backend logged the statement)"
        return
    m = modes[srv]
    if s.get("shape"):
        k = "KStmtTimeout" if s["fault"] == "hang" else "KRecv"
        if s["shape"] == "copyout" and not any(topo.of(b)["name"] == srv for b in ob["post"] if b not in ob["pre"]):
            # COPY TO STDOUT streams to the client in 8 KB pieces: with the client gone pgcat's write to the CLIENT may fail
            # before it has read up to the point where the server breaks; then the server never failed as far as pgcat knows
            k = None
        if k == "KRecv" and s["shape"].startswith("copyin") and any(b["reason"] == "MessageSendFailed" and topo.of(b)["name"] == srv for b in ob["post"]):
            k = "KSend"          # the session died while CopyData was still being forwarded: a later write failed instead of the read
    elif m == "hang":
        k = "KStmtTimeout"
    elif s.get("kill") or m in ("close_mid_reply", "down"):
        k = "KRecv"
    elif m == "slow500":
        k = "KStmtTimeout"
    else:
        k = None
    ob["kind"], ob["arg"] = ("exec", k) if k else ("ok_err", None)
    if k and os.environ.get("VERIF_C07_SELFTEST_GONE_NOBAN"):
        # self-test: pretend the implementation skipped the ban because the client was gone
        ob["post"] = [b for b in ob["post"] if topo.of(b)["name"] != srv or b in ob["pre"]]


def oob_verdict(topo, s, ob):
    """A Bind of a cached named statement on a server connection that lacks it: pgcat sends its own Parse + Sync first.
    The server is the backend that logged a Parse / Bind in the window."""
    ob["stmt_at"] = ob["contacts"][0] if ob["contacts"] else None
    if ob["kind"] == "other_error" and "does not exist" in str(ob["arg"]):
        ob["kind"], ob["arg"] = "oob", "OobServerError"      # the server rejected the re-prepare, then the Bind: the client is told
    elif ob["kind"] == "closed_silent" and ob["stmt_at"]:
        ob["kind"], ob["arg"] = "oob", "OobConnFail"         # client.rs:1854: the error ends the client task without a message
    st = os.environ.get("VERIF_C07_SELFTEST_OOB")
    if st == "A" and ob["arg"] == "OobConnFail":
        # self-test: an implementation whose guard is inverted (socket failures of the exchange do not ban)
        ob["post"] = [b for b in ob["post"] if topo.of(b)["name"] != ob["stmt_at"] or b in ob["pre"]]
    if st == "B" and ob["arg"] == "OobServerError" and ob["stmt_at"]:
        # self-test: an implementation that bans the server whenever the exchange returns an error
        a = topo.by_name[ob["stmt_at"]]
        ob["post"] = ob["post"] + [{"host": a["host"], "port": 0, "shard": a["shard"], "index": a["id"], "role": "Replica", "reason": "MessageSendFailed", "ts": ob["t1"] // 1000, "name": a["name"]}]


def narrow_options(topo, s, ob, m, a):
    """The outcomes the backend's mode allows, minus those the trace rules out (membership is unaffected: only
    assignments that could not match are dropped; it keeps the enumeration over 4 candidates small)."""
    n = a["name"]
    busy = n in s.get("busy", [])
    flags = m["#flags"].get(n, ())
    o = outcome_options(m[n], busy, flags, not topo.hc)
    optional = m[n] in ("down", "hang_startup") or busy or bool(flags)
    served = (ob["arg"] if ob["kind"] == "ok" else ob["stmt_at"]) if ob["kind"] in ("ok", "ok_err", "exec", "oob") else None
    if served == n:
        # it was handed out: the checkout worked and a health check, if one ran, passed
        if ob["hc"].get(n) and m[n] != "down":
            o2 = [x for x in o if x.endswith("HcOk")]
        else:
            o2 = [x for x in o if x != "ConnFail"]
        return o2 or o
    if optional:
        return o
    if n not in ob["contacts"]:
        return o[:1]            # never contacted (a contact would have left a trace): its outcome cannot matter
    if ob["hc"].get(n):
        return [x for x in o if x != "ConnFail"] or o
    return o


def relevant_seconds(topo, ob):
    """Clock readings to try: every second of the step only if a ban could run out inside it; otherwise the first one
    (new time stamps are compared by interval, see bl_match)."""
    t0s, t1s = ob["t0"] // 1000, ob["t1"] // 1000
    if t1s == t0s:
        return [t0s]
    for b in ob["pre"]:
        d = int(b["reason"][9:-1]) if b["reason"].startswith("AdminBan(") else topo.ban_time
        if t0s < b["ts"] + d + 1 <= t1s:
            return list(range(t0s, t1s + 1))
    return [t0s]


def bl_match(model_bl, obs_bl, nows, t0s, t1s):
    """model_bl / obs_bl: lists of (id, reason, ts).  Same keys and reasons; time stamps equal, or the
    model's stamp is one of this step's clock readings (a ban made in this step) and the observed one
    lies within the step (a checkout reads the clock once per ban, possibly in different seconds)."""
    m = {i: (r, ts) for (i, r, ts) in model_bl}
    o = {i: (r, ts) for (i, r, ts) in obs_bl}
    if set(m) != set(o) or len(m) != len(model_bl):
        return False
    for i, (r, ts) in m.items():
        ro, tso = o[i]
        if r != ro:
            return False
        if not (ts == tso or (ts in nows and t0s <= tso <= t1s)):
            return False
    return True


def reason_str(r):
    if isinstance(r, tuple) and r[0] == "AdminBan":
        return "AdminBan(%d)" % r[1]
    return r


def parse_obs_list(v):
    """printed list of tobs -> [(res, ct_ids, [(id, reason, ts)], hcs)]"""
    out = []
    for t in vlib.parse_coq(v):
        res, ct, bl, hcs = t
        if isinstance(res, tuple) and res[0] == "POk":
            res = ("ok", res[1])
        else:
            res = ("alldown",) if res == "PAllDown" else ("invalid",)
        out.append((res, list(ct), [(i, reason_str(r), ts) for (i, r, ts) in bl], list(hcs)))
    return out


def match_txn(topo, s, ob, modes, allowed, nows):
    """Is the observation one the model allows?  Returns (ok, reason-text)."""
    post = [(topo.of(b)["id"], b["reason"], b["ts"]) for b in ob["post"]]
    name_of = {a["id"]: a["name"] for a in topo.addrs}
    busy = set(s.get("busy", []))
    kind = ob["kind"]
    t0s, t1s = ob["t0"] // 1000, ob["t1"] // 1000
    # a contact leaves no trace at the mock when it refuses connections (down), when the connection
    # attempt was already pending before the step (hang_startup) or when bb8 only waited for a slot (busy)
    flags = modes.get("#flags", {})
    optional = lambda n: modes[n] in ("down", "hang_startup") or n in busy or bool(flags.get(n))
    why = []
    for (res, ct, bl, hcs) in allowed:
        if kind in ("ok", "ok_err"):
            srv = ob["arg"] if kind == "ok" else ob["stmt_at"]
            if res[0] != "ok" or name_of[res[1]] != srv:
                why.append("result"); continue
        elif kind in ("exec", "oob"):
            if res[0] != "ok" or (ob["stmt_at"] and name_of[res[1]] != ob["stmt_at"]):
                why.append("result"); continue
        elif kind == "refused":
            if res[0] == "ok":
                why.append("result"); continue
        else:
            why.append("kind"); continue
        if not bl_match(bl, post, nows, t0s, t1s):
            why.append("banlist"); continue
        vis = [(name_of[i], h) for i, h in zip(ct, hcs) if not (optional(name_of[i]) and name_of[i] not in ob["contacts"])]
        if [n for n, _ in vis] != ob["contacts"]:
            why.append("contacts"); continue
        if any(bool(ob["hc"].get(n)) != h for n, h in vis if modes[n] != "down" and "stale" not in flags.get(n, ())):
            why.append("healthcheck"); continue
        return True, ""
    return False, ",".join(sorted(set(why)))


# ----------------------------------------------------------------------------- monitors (no model)
def expired_possible(b, t0, t1, ban_time):
    d = int(b["reason"][9:-1]) if b["reason"].startswith("AdminBan(") else ban_time
    return (t1 // 1000) - b["ts"] > d, (t0 // 1000) - b["ts"] > d      # (may be expired, surely expired)


def monitors(topo, s, ob, modes):
    """The property's sentences evaluated on one transaction window.  Returns list of failures."""
    bad = []
    cands = topo.candidates(s.get("role") or (None if topo.default_role == "any" else topo.default_role), s.get("shard"))
    pre = {topo.of(b)["name"]: b for b in ob["pre"]}
    post = {topo.of(b)["name"]: b for b in ob["post"]}
    for n in list(pre) + list(post):
        if topo.by_name[n]["role"] == "P":
            bad.append("primary %s is on the ban list" % n)
    if ob["kind"] == "ok" and ob["arg"] in post:
        bad.append("the serving replica %s is banned after its own successful checkout" % ob["arg"])
    flags = modes.get("#flags", {})
    healthy = lambda m: m in ("normal", "error", "slow100")
    usable = []
    for a in cands:
        n = a["name"]
        if not healthy(modes[n]) or n in s.get("busy", []) or flags.get(n):
            continue
        if a["role"] == "P" or n not in pre or expired_possible(pre[n], ob["t0"], ob["t1"], topo.ban_time)[1]:
            usable.append(n)
    # (a statement that then fails on a broken server the checkout handed out is the other sentence of the property)
    if usable and ob["kind"] in ("refused", "closed_silent", "other_error"):
        bad.append("candidate(s) %s usable (healthy and not under an unexpired ban) but the transaction was refused: %s %s" % (usable, ob["kind"], ob["arg"]))
    if s.get("oob"):
        f, srv = s.get("oob_fault"), ob["stmt_at"]
        newly = [n for n in post if n not in pre or post[n] != pre[n]]
        if f in (None, "error") and newly:
            bad.append("pgcat re-prepared a statement on %s out of band; %s; yet %s was banned: %s" %
                       (srv, "the server REJECTED it with an ErrorResponse (the server is fine)" if f else "the server accepted it", newly, brief(ob["post"])))
        if f in ("close", "mid") and srv and topo.by_name[srv]["role"] == "R" and (srv not in post or post[srv]["reason"] != "MessageSendFailed"):
            bad.append("the connection to %s died while pgcat re-prepared a statement on it out of band (%s) and %s is not banned MessageSendFailed: %s" % (srv, f, srv, brief(ob["post"])))
        want = {None: ("ok", None), "error": ("oob", "OobServerError"), "close": ("oob", "OobConnFail"), "mid": ("oob", "OobConnFail")}.get(f)
        if want and (ob["kind"], ob["arg"] if ob["kind"] == "oob" else None) != want:
            bad.append("out-of-band re-prepare with fault %s: the client saw %s %s (expected %s)" % (f, ob["kind"], ob["arg"], want))
    if ob["kind"] == "exec" and ob["stmt_at"] and topo.by_name[ob["stmt_at"]]["role"] == "R":
        want = {"KRecv": "MessageReceiveFailed", "KStmtTimeout": "StatementTimeout", "KSend": "MessageSendFailed"}[ob["arg"]]
        if ob["stmt_at"] not in post or post[ob["stmt_at"]]["reason"] != want:
            bad.append("replica %s broke while executing the statement (%s, client %s) and is not banned %s afterwards: %s" %
                       (ob["stmt_at"], ob["arg"], {"close": "closed its socket before the reply", "rst": "reset its socket before the reply"}.get(ob.get("fate"), "stayed"), want, brief(ob["post"])))
    if ob["kind"] == "exec" and ob["stmt_at"] and healthy(modes[ob["stmt_at"]]) and not flags.get(ob["stmt_at"]) and not s.get("kill"):
        bad.append("the statement failed (%s) on %s which is healthy" % (ob["arg"], ob["stmt_at"]))
    if ob["kind"] == "ok" and not healthy(modes[ob["arg"]]) and modes[ob["arg"]] != "hang_startup":
        bad.append("served by %s which is in mode %s" % (ob["arg"], modes[ob["arg"]]))
    # bypass: banned, surely unexpired, another replica of the shard unbanned + healthy => not contacted
    for a in cands:
        n = a["name"]
        if a["role"] != "R" or n not in pre or expired_possible(pre[n], ob["t0"], ob["t1"], topo.ban_time)[0]:
            continue
        others = [x for x in topo.addrs if x["shard"] == a["shard"] and x["role"] == "R" and x["name"] != n and x["name"] not in pre
                  and healthy(modes[x["name"]]) and x["name"] not in s.get("busy", []) and not flags.get(x["name"])]
        if others and (n in ob["contacts"] or ob["stmt_at"] == n):
            bad.append("replica %s is banned (not expired) and %s is up and unbanned, yet %s was contacted" % (n, [x["name"] for x in others], n))
    lat = ob["t1"] - ob["t0"]
    bound = 3 * (len(cands) * max(CONNECT_TO, HC_TO) + STMT_TO) + 1000
    if ob["kind"] != "blocked" and lat > bound:
        bad.append("LATENCY transaction took %d ms > %d ms (3 x configured timeouts + 1 s)" % (lat, bound))
    return bad


# ----------------------------------------------------------------------------- generation
def topologies(quick):
    ts = []
    for nrep in (0, 1, 2, 3):
        for prim in (True, False):
            if nrep == 0 and not prim:
                continue
            for lb in ("random", "loc"):
                for hc in (True, False):
                    roles = (["P"] if prim else []) + ["R"] * nrep
                    ts.append((roles, lb, hc))
    return ts


def random_schedule(rng, topo, nsteps):
    hl = []
    names = [a["name"] for a in topo.addrs]
    reps = [a["name"] for a in topo.addrs if a["role"] == "R"]
    init = {}
    if reps and rng.random() < 0.35:
        b = rng.choice(reps)
        others_ok = [n for n in names if n != b]
        if others_ok:
            init[b] = rng.choice(["down", "hang_startup", "hang"])
    roles = ["replica", "primary", "any", None]
    fault_modes = ["down", "hang", "hang_startup", "close_mid_reply", "slow500", "slow100", "error", "normal", "normal"]
    ntx = 0
    for _ in range(nsteps):
        x = rng.random()
        if x < 0.22 and names:
            b = rng.choice(reps if (reps and rng.random() < 0.8) else names)
            hl.append({"op": "mode", "b": b, "mode": rng.choice(fault_modes)})
        elif x < 0.30 and names:
            hl.append({"op": "ban", "b": rng.choice(names), "secs": rng.choice([30, 60, 600])})
        elif x < 0.35 and names:
            hl.append({"op": "unban", "b": rng.choice(names)})
        elif x < 0.39:
            hl.append({"op": "showbans"})
        else:
            role = rng.choice(roles)
            s = {"op": "txn", "role": role}
            y = rng.random()
            if y < 0.10:
                s.update({"sql": "SELECT 1 /*mock: sleep=120, close*/", "kill": True})
            if y < 0.07:
                s["fate"] = rng.choice(["close", "rst"])
            elif 0.10 <= y < 0.15:
                s.update({"sql": "SELECT 1 /*mock: sleep=120*/", "fate": rng.choice(["close", "rst"])})
            if s.get("fate"):
                # nobody reads the reply: look at the ban list only after the slowest possible checkout + statement
                s["settle"] = len(topo.addrs) * max(CONNECT_TO, HC_TO) + STMT_TO + 200
            if len(topo.shards) > 1:
                s["shard"] = rng.choice([0, 1])
            hl.append(s)
            ntx += 1
    if ntx == 0:
        hl.append({"op": "txn", "role": rng.choice(roles)})
    return hl, init


def scripted(quick):
    """Hand-written schedules for the sentences of the property (ids are stable)."""
    out = []
    # failover + bypass + UNBAN, 3 replicas, each fault kind
    for mode in ("down", "hang", "close_mid_reply", "slow500", "hang_startup"):
        for lb in ("random", "loc"):
            t = Topo([["P", "R", "R", "R"]], lb=lb, hc=True)
            hl = [{"op": "mode", "b": "r1", "mode": mode}] + [{"op": "txn", "role": "replica"} for _ in range(5)] + \
                 [{"op": "showbans"}, {"op": "unban", "b": "r1"}, {"op": "mode", "b": "r1", "mode": "normal"}] + [{"op": "txn", "role": "replica"} for _ in range(3)]
            out.append(("failover-%s-%s" % (mode, lb), t, hl, {"r1": mode} if mode == "hang_startup" else None))
    # statement-time failures (no health check), every kind, replica and primary
    for mode in ("down", "hang", "close_mid_reply", "slow500"):
        for victim, role in (("r1", "replica"), ("p0", "primary")):
            t = Topo([["P", "R", "R"]], hc=False)
            hl = [{"op": "mode", "b": victim, "mode": mode}] + [{"op": "txn", "role": role} for _ in range(4)]
            out.append(("execfail-%s-%s" % (mode, victim), t, hl, None))
    # everything down, then recovery; role any falls back to the primary
    for hc in (True, False):
        t = Topo([["P", "R", "R"]], hc=hc)
        hl = [{"op": "mode", "b": "r1", "mode": "down"}, {"op": "mode", "b": "r2", "mode": "down"}] + \
             [{"op": "txn", "role": "replica"}, {"op": "txn", "role": "replica"}, {"op": "txn", "role": "any"}, {"op": "txn", "role": "primary"}] + \
             [{"op": "mode", "b": "r2", "mode": "normal"}] + [{"op": "txn", "role": "replica"} for _ in range(3)]
        out.append(("alldown-recover-hc%d" % hc, t, hl, None))
    # primary broken: never banned, role=primary refused, role=any served by replicas
    t = Topo([["P", "R"]], hc=True)
    out.append(("primary-down", t, [{"op": "mode", "b": "p0", "mode": "down"}] + [{"op": "txn", "role": r} for r in ("primary", "any", "any", "primary", "replica")] +
                [{"op": "ban", "b": "p0", "secs": 5}, {"op": "showbans"}, {"op": "txn", "role": "primary"}], None))
    # no replicas at all; replica role refused, primary serves
    t = Topo([["P"]], hc=True)
    out.append(("no-replica", t, [{"op": "txn", "role": r} for r in ("replica", "any", "primary", None)], None))
    # single replica: a ban is void (reset on the next pop)
    t = Topo([["P", "R"]], hc=True)
    out.append(("single-replica-ban-void", t, [{"op": "ban", "b": "r1", "secs": 30}] + [{"op": "txn", "role": "replica"} for _ in range(2)] +
                [{"op": "ban", "b": "r1", "secs": 30}] + [{"op": "txn", "role": "any"} for _ in range(4)], None))
    # expiry with real time: ban_time 1 => still banned within the same/next second, free after 2.2 s
    for mode in ("down", "hang"):
        t = Topo([["P", "R", "R"]], hc=True, ban_time=1)
        hl = [{"op": "mode", "b": "r1", "mode": mode}] + [{"op": "txn", "role": "replica"} for _ in range(4)] + \
             [{"op": "mode", "b": "r1", "mode": "normal"}] + [{"op": "txn", "role": "replica"} for _ in range(2)] + \
             [{"op": "sleep", "ms": 2200}] + [{"op": "txn", "role": "replica"} for _ in range(5)]
        out.append(("expiry-%s" % mode, t, hl, None))
    # strictness of '>' on whole seconds: admin BAN 1 at x.85, look again at (x+1).15 => age 1, not > 1
    for rep in range(2 if quick else 6):
        t = Topo([["P", "R", "R"]], hc=True, lb=("random", "loc")[rep % 2], ban_time=1)
        hl = [{"op": "sleep_frac", "ms": 850}, {"op": "ban", "b": "r1", "secs": 1}, {"op": "sleep_frac", "ms": 150}] + \
             [{"op": "txn", "role": "replica"} for _ in range(8)] + [{"op": "showbans"}, {"op": "sleep", "ms": 1100}] + [{"op": "txn", "role": "replica"} for _ in range(6)]
        out.append(("strict-gt-%d" % rep, t, hl, None))
    # the same with the pop order pinned: least-outstanding-connections mode, an open transaction keeps one
    # connection of r2 busy, so r1 (no busy connection) is popped first; a failure ban and an admin ban of r1
    # are looked at again at age exactly 1 s (still banned: 1 > 1 is false) and at age >= 2 s (unbanned, health-checked)
    for rep in range(1 if quick else 4):
        t = Topo([["P", "R", "R"]], hc=True, lb="loc", ban_time=1)
        F = {"op": "txn", "role": "replica", "first": ["r1"]}
        hl = [{"op": "ban", "b": "r1", "secs": 600}, {"op": "txn", "role": "replica", "sql": "BEGIN", "c": "holder", "keep": True}, {"op": "unban", "b": "r1"},
              {"op": "mode", "b": "r1", "mode": "close_mid_reply"}, {"op": "sleep_frac", "ms": 800}, dict(F), {"op": "mode", "b": "r1", "mode": "normal"},
              {"op": "sleep_frac", "ms": 150}, dict(F), dict(F), dict(F), {"op": "showbans"}, {"op": "sleep", "ms": 1000}, dict(F), dict(F),
              {"op": "sleep_frac", "ms": 850}, {"op": "ban", "b": "r1", "secs": 1}, {"op": "sleep_frac", "ms": 150}, dict(F), dict(F), dict(F), {"op": "sleep", "ms": 1000}, dict(F), dict(F)]
        out.append(("strict-gt-pinned-%d" % rep, t, hl, None))
    # health checks only when forced (healthcheck_delay 600 s): a replica coming back from a ban is checked, nobody else
    for lb in ("random", "loc"):
        t = Topo([["P", "R", "R"]], hc=False, lb=lb, ban_time=1)
        hl = [{"op": "ban", "b": "r1", "secs": 1}, {"op": "ban", "b": "r2", "secs": 1}, {"op": "txn", "role": "replica"}, {"op": "ban", "b": "r1", "secs": 1}, {"op": "sleep", "ms": 2200}] + \
             [{"op": "txn", "role": "replica"} for _ in range(5)] + [{"op": "mode", "b": "r2", "mode": "hang"}, {"op": "ban", "b": "r2", "secs": 1}, {"op": "sleep", "ms": 2200}] + \
             [{"op": "txn", "role": "replica"} for _ in range(4)]
        out.append(("forced-healthcheck-%s" % lb, t, hl, None))
    # admin durations: BAN 2 survives ban_time=1
    t = Topo([["P", "R", "R"]], hc=True, ban_time=1)
    hl = [{"op": "ban", "b": "r2", "secs": 3}, {"op": "showbans"}] + [{"op": "txn", "role": "replica"} for _ in range(3)] + [{"op": "sleep", "ms": 2200}] + \
         [{"op": "txn", "role": "replica"} for _ in range(4)] + [{"op": "sleep", "ms": 2000}] + [{"op": "txn", "role": "replica"} for _ in range(5)]
    out.append(("admin-duration", t, hl, None))
    # admin argument handling
    t = Topo([["P", "R", "R"]], hc=True)
    hl = [{"op": "admin_raw", "sql": "BAN 127.0.0.11 0"}, {"op": "admin_raw", "sql": "BAN 127.0.0.11 -5"}, {"op": "admin_raw", "sql": "BAN 127.0.0.11"},
          {"op": "admin_raw", "sql": "BAN 127.0.0.99 5"}, {"op": "admin_raw", "sql": "BAN 127.0.0.11 x"}, {"op": "ban", "b": "r1", "secs": 5}, {"op": "ban", "b": "r1", "secs": 50},
          {"op": "showbans"}, {"op": "admin_raw", "sql": "UNBAN 127.0.0.99"}, {"op": "unban", "b": "r1"}, {"op": "unban", "b": "r1"}, {"op": "showbans"}, {"op": "txn", "role": "replica"}]
    out.append(("admin-args", t, hl, None))
    # in-statement replica fault x fate of the client that sent the statement (stays / closes before the reply /
    # resets its socket 30 ms after sending).  The ban must not depend on the client: the broken replica is banned in
    # every case and the next clients are served by the other one.  No health check at checkout (delay 600 s), so the
    # fault is met at statement time; r1 is un-banned by the admin between rounds so that it can be hit again.
    KILL = "SELECT 1 /*mock: sleep=120, close*/"
    SLOWQ = "SELECT 1 /*mock: sleep=120*/"
    for fault in ("hang", "close_mid_reply", "dies-after-checkout"):
        for fate in (None, "close", "rst"):
            for lb in (("random",) if quick else ("random", "loc")):
                t = Topo([["P", "R", "R"]], hc=False, lb=lb)
                hl = [] if fault == "dies-after-checkout" else [{"op": "mode", "b": "r1", "mode": fault}]
                for rnd in range(1 if quick else 6):
                    x = {"op": "txn", "role": "replica", "sql": KILL if fault == "dies-after-checkout" else SLOWQ}
                    if fault == "dies-after-checkout":
                        x["kill"] = True
                    if fate:
                        x["fate"] = fate
                    hl += [x, {"op": "showbans"}, {"op": "txn", "role": "replica"}, {"op": "txn", "role": "replica"}, {"op": "unban", "b": "r1"}, {"op": "unban", "b": "r2"}]
                out.append(("client-%s-%s-%s" % (fate or "stays", fault, lb), t, hl, None))
    # statement shape x fault kind x client fate: every point where the client task waits for the server
    # (simple / multi-statement query, extended batch before ParseComplete / at the rows / before ReadyForQuery,
    # COPY FROM STDIN after CopyInResponse / during CopyData / after CopyDone / after CopyFail, COPY TO STDOUT mid stream)
    for shape in SHAPES:
        for fault in FAULTS:
            t = Topo([["P", "R", "R"]], hc=False, lb="random" if (SHAPES.index(shape) + FAULTS.index(fault)) % 2 == 0 else "loc")
            if os.environ.get("VERIF_C07_SELFTEST_COPY_UNDETECTED") and shape in ("copyin_done", "copyin_fail"):
                # self-test: behave like an implementation whose wait for the reply to CopyDone / CopyFail has no statement
                # timeout (statement_timeout = 0 for this pool; the oracle is not told)
                t = Topo([["P", "R", "R"]], hc=False, lb=t.lb, stmt_to=0)
            hl = []
            for fate in (None, "close", "rst"):
                x = {"op": "txn", "role": "replica", "shape": shape, "fault": fault, "kill": True}
                if fate:
                    x["fate"] = fate
                hl += [x, {"op": "showbans"}, {"op": "txn", "role": "replica"}, {"op": "txn", "role": "replica"}, {"op": "unban", "b": "r1"}, {"op": "unban", "b": "r2"}]
            for _ in range(0 if quick else 2):
                hl += [dict(x) for x in hl[:18]]
            out.append(("shape-%s-%s" % (shape, fault), t, hl, None))
    # statement caching on (prepared_statements_cache_size 8): a client Parses a named statement on the primary and Binds it
    # in a later transaction routed to a replica, whose connection lacks it: pgcat re-prepares it there with its OWN
    # Parse + Sync.  The server may accept, REJECT the statement (ErrorResponse: no ban, the replica keeps serving), or its
    # connection may die at that Parse (closed / half an answer: ban MessageSendFailed, later transactions bypass it).
    for lb in ("random", "loc"):
        for rep in range(1 if quick else 4):
            t = Topo([["P", "R", "R"]], hc=False, lb=lb, ps_cache=8)
            hl = []
            for i, f in enumerate(["error", "close", None, "mid", "error", "close"]):
                c, nm = "pc%d" % i, "st%d" % i
                bes = [{"t": "B", "portal": "", "name": nm, "params": []}, {"t": "E", "portal": "", "max": 0}, {"t": "S"}]
                hl += [{"op": "txn", "role": "primary", "c": c, "keep": True, "msgs": [{"t": "P", "name": nm, "sql": "SELECT %d /*prep%d*/" % (i, i), "types": []}] + bes},
                       dict({"op": "txn", "role": "replica", "c": c, "reuse": True, "keep": True, "msgs": bes, "oob": True, "oob_fault": f, "wait": SHAPE_WAIT}, **({"arm": ("P", f)} if f else {})),
                       {"op": "showbans"}, {"op": "txn", "role": "replica"}, {"op": "txn", "role": "replica"}, {"op": "unban", "b": "r1"}, {"op": "unban", "b": "r2"}]
            out.append(("oob-reprepare-%s-%d" % (lb, rep), t, hl, None))
    # several servers on ONE host string (different ports), within a shard and across shards: BAN / UNBAN <host> apply to all of them
    worlds = [("two-of-three", [["P", "R", "R", "R"]], [10, 20, 20, 21]), ("all-three", [["P", "R", "R", "R"]], [10, 20, 20, 20]),
              ("with-primary", [["P", "R", "R"]], [20, 20, 20]), ("across-shards", [["P", "R", "R"], ["P", "R", "R"]], [10, 20, 20, 10, 20, 21])]
    for wn, shards, hosts in worlds:
        for lb in (("random",) if quick else ("random", "loc")):
            t = Topo(shards, hc=True, lb=lb, hosts=hosts)
            two = len(shards) > 1
            tx = lambda sh=0: dict({"op": "txn", "role": "replica"}, **({"shard": sh} if two else {}))
            last = t.addrs[-1]["name"]
            hl = [{"op": "ban", "b": "r1", "secs": 30}, {"op": "showbans"}] + [tx(i % 2) for i in range(4)] + \
                 [{"op": "unban", "b": "r2"}, {"op": "showbans"}] + [tx(i % 2) for i in range(3)] + \
                 [{"op": "mode", "b": "r2", "mode": "close_mid_reply"}] + [tx(0) for i in range(4)] + [{"op": "ban", "b": "r1", "secs": 30}, {"op": "showbans"}] + [tx(i % 2) for i in range(2)] + \
                 [{"op": "mode", "b": "r2", "mode": "normal"}, {"op": "unban", "b": "r1"}, {"op": "showbans"}] + [tx(i % 2) for i in range(3)] + \
                 [{"op": "ban", "b": "p0", "secs": 30}, {"op": "showbans"}, {"op": "ban", "b": last, "secs": 30}, {"op": "unban", "b": "p0"}, {"op": "unban", "b": last}, {"op": "showbans"}] + [tx(i % 2) for i in range(2)]
            out.append(("shared-host-%s-%s" % (wn, lb), t, hl, None))
    # two shards: bans and the all-banned reset are per shard
    t = Topo([["P", "R", "R"], ["P", "R", "R"]], hc=True)
    hl = [{"op": "mode", "b": "r1", "mode": "down"}, {"op": "mode", "b": "r2", "mode": "down"}] + \
         [{"op": "txn", "role": "replica", "shard": sh} for sh in (0, 1, 0, 1, 0, 1)] + [{"op": "ban", "b": "r4", "secs": 30}] + \
         [{"op": "txn", "role": "replica", "shard": sh} for sh in (1, 1, 1, 0)] + [{"op": "txn", "role": "any", "shard": 0}, {"op": "showbans"}]
    out.append(("two-shards", t, hl, None))
    return out


# ----------------------------------------------------------------------------- (c) and (d): scripted probes
def probe_busy_pool():
    """(c) pool_size 1, the only connection of healthy r1 is held by an open transaction; r2 is admin-banned."""
    t = Topo([["R", "R"]], hc=False, pool_size=1)
    hl = [{"op": "ban", "b": "r1", "secs": 30},
          {"op": "txn", "role": "replica", "sql": "BEGIN", "c": "holder", "keep": True},        # lands on r0 (r1 banned)
          {"op": "unban", "b": "r1"}, {"op": "ban", "b": "r1", "secs": 30},
          {"op": "txn", "role": "replica", "busy": ["r0"], "wait": 6000},                       # r0 busy for connect_timeout => banned although healthy
          {"op": "showbans"},
          {"op": "txn", "role": "replica", "busy": ["r0"], "wait": 6000}]
    return ("busy-pool", t, hl, None)


def probes_unguarded():
    """(d) hang a backend exactly at one server-facing await; expect blocked (F10) or bounded."""
    out = []
    # guarded sites first (bounded)
    t = Topo([["R"]], hc=True)
    out.append(("site-healthcheck", t, [{"op": "mode", "b": "r0", "mode": "hang"}, {"op": "txn", "role": "replica", "wait": 2500, "site": "SHealthCheck", "expect": "bounded"}], None))
    t = Topo([["R"]], hc=False)
    out.append(("site-relay-recv", t, [{"op": "mode", "b": "r0", "mode": "hang"}, {"op": "txn", "role": "replica", "wait": 2500, "site": "SRelayRecv", "expect": "bounded"}], None))
    t = Topo([["P", "R"]], hc=False)
    out.append(("site-checkout", t, [{"op": "txn", "role": "replica", "wait": 2500, "site": "SCheckout", "expect": "bounded"}], {"r1": "hang_startup"}))
    # sync_parameters: the SET batch sent at checkout is swallowed (client application_name differs from the server's)
    t = Topo([["R"]], hc=False)
    out.append(("site-sync-parameters", t, [{"op": "hang_match", "b": "r0", "text": "SET application_name"},
                                            {"op": "txn", "role": "replica", "app": "other_app", "wait": 2500, "site": "SSyncParameters", "expect": "blocked"}], None))
    # checkin_cleanup: the statement succeeds, RESET ALL at check-in is swallowed; the client's NEXT statement is never read
    t = Topo([["R"]], hc=False)
    out.append(("site-checkin-cleanup", t, [{"op": "hang_match", "b": "r0", "text": "RESET ALL"},
                                            {"op": "txn", "role": "replica", "sql": "SET statement_timeout TO 5000", "c": "cc", "keep": True, "wait": 2500},
                                            {"op": "txn", "c": "cc", "reuse": True, "wait": 2500, "site": "SCheckinCleanup", "expect": "blocked"}], None))
    # register_prepared_statement: the statement was parsed on the primary; the Bind is routed to the replica, which
    # does not know it: pgcat sends Parse + Sync on its own and waits for the answer
    t = Topo([["P", "R"]], hc=False, ps_cache=10)
    bes = [{"t": "B", "portal": "", "name": "s1", "params": []}, {"t": "E", "portal": "", "max": 0}, {"t": "S"}]
    out.append(("site-register-prepared", t, [{"op": "txn", "role": "primary", "c": "cc", "keep": True, "msgs": [{"t": "P", "name": "s1", "sql": "SELECT 1 /*s0*/", "types": []}] + bes},
                                              {"op": "mode", "b": "r1", "mode": "hang"},
                                              {"op": "txn", "role": "replica", "c": "cc", "reuse": True, "msgs": bes, "wait": 2500, "site": "SRegisterPrepared", "expect": "blocked"}], None))
    return out


def probes_observe():
    """Schedules whose outcome is recorded as an observation (no verdict)."""
    out = []
    # (f) the server connection breaks inside sync_parameters (stale idle connection, no health check, SET batch needed)
    t = Topo([["P", "R"]], hc=False)
    out.append(("observe-sync-parameters-failure", t, [{"op": "mode", "b": "r1", "mode": "down"}, {"op": "txn", "role": "replica", "app": "other_app", "observe": "sync_fail"}], None))
    # (e) a connection attempt hung in startup keeps the server's bb8 pool from connecting again after the server recovered
    t = Topo([["P", "R"]], hc=True, ban_time=1)
    out.append(("observe-pending-connect-wedge", t, [{"op": "txn", "role": "replica"}, {"op": "mode", "b": "r1", "mode": "normal"}, {"op": "sleep", "ms": 2500},
                                                     {"op": "txn", "role": "replica", "observe": "wedge"}], {"r1": "hang_startup"}))
    return out


# ----------------------------------------------------------------------------- the check
class Col:
    """violations of one pass; reported only if they persist when the schedule is run again alone"""

    def __init__(self):
        self.v = []

    def violation(self, kind, what, replay, found_input=True):
        self.v.append((replay.get("case"), kind, what, replay, found_input))

    def cases(self):
        return sorted({c for c, *_ in self.v})


def run_and_check(run, col, wire, cases, stats, label, workers=16):
    """cases: [(id, topo, hl, initial_modes)].  Runs them, evaluates the model, compares."""
    scns = [build(t, hl, init) for (_, t, hl, init) in cases]
    results = W.run_scenarios(wire, scns, workers=workers, timeout=120)
    exprs, where = [], []
    per_case = []
    for ci, ((cid, topo, hl, init), res) in enumerate(zip(cases, results)):
        info = {"id": cid, "steps": [], "res": res}
        per_case.append(info)
        if "events" not in res:
            stats["harness_errors"] += 1
            info["error"] = res.get("harness_error") or res.get("start_error") or "no events"
            continue
        ws = windows(res)
        modes = modes_at(topo, hl, init)
        for s in hl:
            lab = "s%d" % s["k"]
            if s["op"] not in ("txn", "ban", "unban", "showbans", "admin_raw") or lab not in ws:
                continue
            w = ws[lab]
            m = modes[s["k"]]
            if s["op"] == "txn":
                ob = observe_txn(topo, s, w)
                if s.get("oob"):
                    oob_verdict(topo, s, ob)
                elif s.get("fate"):
                    gone_verdict(topo, s, ob, m)
                elif s.get("shape") and ob["kind"] == "closed_silent" and ob["stmt_at"] and \
                        any(b["reason"] == "MessageSendFailed" and topo.of(b)["name"] == ob["stmt_at"] for b in ob["post"] if b not in ob["pre"]):
                    ob["kind"], ob["arg"] = "exec", "KSend"   # client.rs:2052: a failed write to the server bans and ends the client task without a message
                st = {"s": s, "ob": ob, "modes": m}
                info["steps"].append(st)
                if ob["kind"] in ("ok", "ok_err", "exec", "refused", "oob"):
                    role = s.get("role") or (None if topo.default_role == "any" else topo.default_role)
                    req = {"replica": "(Some Replica)", "primary": "(Some Primary)"}.get(role, "None")
                    shard = "None" if s.get("shard") is None else "(Some %d%%nat)" % s["shard"]
                    cands = topo.candidates(role, s.get("shard"))
                    opts = "[" + "; ".join("(%s, [%s])" % (topo.coq_addr(a), "; ".join(narrow_options(topo, s, ob, m, a))) for a in cands) + "]"
                    nows = relevant_seconds(topo, ob)
                    if ob["kind"] == "exec":
                        ek = "(Some (fun a now => ExecFail a %s now %s))" % (ob["arg"], "true" if s.get("fate") else "false")
                    elif ob["kind"] == "oob" or (s.get("oob") and ob["kind"] == "ok"):
                        ek = "(Some (fun a now => OobPrepare a %s now))" % (ob["arg"] if ob["kind"] == "oob" else "OobOk")
                    else:
                        ek = "None"
                    st["nows"] = nows
                    first = "[" + "; ".join(topo.coq_addr(topo.by_name[n]) for n in s.get("first", [])) + "]"
                    exprs.append("tie_txn %s %s %s %s %s [%s] %s %s" % (topo.coq_cfg(), coq_bl(topo, ob["pre"]), req, shard, opts, "; ".join(str(n) for n in nows), ek, first))
                    where.append((ci, len(info["steps"]) - 1))
            else:
                frames = []
                for e in w["events"]:
                    if e.get("ev") == "recv" and e.get("label") == lab:
                        frames = e["frames"]
                pre, post = pool_bans(w["pre"]), pool_bans(w["post"])
                st = {"s": s, "admin": True, "pre": pre, "post": post, "frames": frames, "t0": w["pre"]["unix_ms"], "t1": w["post"]["unix_ms"], "modes": m}
                info["steps"].append(st)
                if s["op"] in ("ban", "unban"):
                    h = topo.by_name[s["b"]]["hostn"]
                    nows = sorted(set([st["t0"] // 1000, st["t1"] // 1000]))
                    for now in nows:
                        o = ("AdminBan_ %d %d %d" % (h, s["secs"], now)) if s["op"] == "ban" else ("AdminUnban %d" % h)
                        exprs.append("tie_step %s %s (%s)" % (topo.coq_cfg(), coq_bl(topo, pre), o))
                        where.append((ci, len(info["steps"]) - 1))
    vals = vlib.coq_eval("c07_" + label, PREAMBLE, exprs, shard=max(40, (len(exprs) + 15) // 16)) if exprs else []
    model = {}
    for (ci, si), e, v in zip(where, exprs, vals):
        model.setdefault((ci, si), []).append((e, v))
    # compare
    for ci, ((cid, topo, hl, init), info) in enumerate(zip(cases, per_case)):
        if "error" in info:
            continue
        prev_post = None
        for si, st in enumerate(info["steps"]):
            s = st["s"]
            replay = {"case": cid, "topology": {"shards": topo.shards, "lb": topo.lb, "healthcheck": topo.hc, "default_role": topo.default_role, "pool_size": topo.pool_size, "ban_time": topo.ban_time, "ps_cache": topo.ps_cache, "stmt_to": topo.stmt_to, "hosts": topo.hosts},
                      "schedule": [{k: v for k, v in x.items() if k != "k"} for x in hl], "initial_modes": init, "step": s["k"]}
            pre = st["pre"] if st.get("admin") else st["ob"]["pre"]
            post = st["post"] if st.get("admin") else st["ob"]["post"]
            # the ban list only changes inside windows (expiry is lazy): chain consistency
            if prev_post is not None and json.dumps(prev_post, sort_keys=True) != json.dumps(pre, sort_keys=True):
                col.violation("tie-broken", "%s: the ban list changed between two operations (%s -> %s)" % (cid, prev_post, pre), dict(replay, observed={"before": prev_post, "after": pre}), found_input=False)
                stats["violations"] += 1
            prev_post = post
            stats["steps"] += 1
            for b in pre + post:
                if b["role"] == "Primary":
                    col.violation("counterexample", "%s: a primary is on the ban list: %s" % (cid, b), dict(replay, observed=b))
            if st.get("admin"):
                check_admin(col, topo, st, model.get((ci, si), []), replay, stats)
                continue
            ob = st["ob"]
            stats["txn_kinds"][ob["kind"]] = stats["txn_kinds"].get(ob["kind"], 0) + 1
            fk = "%s/%s" % (s.get("fate", "stays"), ob["arg"] if ob["kind"] == "exec" else ob["kind"])
            if s.get("fate") or s.get("kill"):
                stats["client_fates"][fk] = stats["client_fates"].get(fk, 0) + 1
            if s.get("oob"):
                ok_ = "%s" % (s.get("oob_fault") or "none")
                stats["oob"][ok_] = stats["oob"].get(ok_, [])
                stats["oob"][ok_].append("%s %s on %s, bans %s -> %s" % (ob["kind"], ob["arg"], ob["stmt_at"], brief(ob["pre"]), brief(ob["post"])))
            if s.get("shape"):
                sk = "%s/%s/%s" % (s["shape"], s["fault"], s.get("fate", "stays"))
                stats["shapes"][sk] = "%s %s" % (ob["kind"], ob["arg"]) + ("" if ob["kind"] != "exec" or s.get("fate") else " after %d ms" % (ob["t1"] - ob["t0"]))
            if s.get("fate") and ob["kind"] == "refused":
                # the statement went into a dead socket of a server that had refused connections: nothing to compare
                fl = st["modes"].get("#flags", {})
                if any(st["modes"][a["name"]] == "down" or "stale" in fl.get(a["name"], ()) for a in topo.addrs):
                    stats["unobservable"] += 1
                    continue
            stats["distinct"].add((topo.key(), s.get("role"), s.get("shard"), tuple(sorted((k, v) for k, v in st["modes"].items() if k != "#flags")), tuple(sorted((b.get("name"), b["reason"].split("(")[0]) for b in ob["pre"])), ob["kind"]))
            if s.get("observe"):
                stats["observed"][s["observe"]] = {"client": [ob["kind"], ob["arg"]], "bans_before": brief(ob["pre"]), "bans_after": brief(ob["post"]), "modes": {k: v for k, v in st["modes"].items() if k != "#flags"},
                                                   "ms": ob["t1"] - ob["t0"]}
                continue
            bad = monitors(topo, s, ob, st["modes"])
            if s.get("expect"):
                check_site(run, col, s, ob, replay, stats)
                if s["expect"] == "blocked" or ob["kind"] == "blocked":
                    continue
            elif ob["kind"] == "blocked":
                bad.append("the client got no answer within %d ms%s" % (s.get("wait", SHAPE_WAIT if s.get("shape") else 5000),
                           (" (statement_timeout %d ms + 2 s): the server broke at '%s' (%s) and this wait of the client task is not bounded" % (STMT_TO, s["shape"], s["fault"])) if s.get("shape") else ""))
            for b in bad:
                stats["monitor_failures"] += 1
                col.violation("counterexample", "%s step %d: %s" % (cid, s["k"], b), dict(replay, observed=slim(ob), modes=st["modes"]))
            if bad:
                continue
            if ob["kind"] in ("closed_silent", "other_error", "other", "blocked"):
                stats["unmodelled"][ob["kind"] + ":" + str(ob["arg"])[:60]] = stats["unmodelled"].get(ob["kind"] + ":" + str(ob["arg"])[:60], 0) + 1
                col.violation("tie-broken", "%s step %d: client observation outside the model: %s %s" % (cid, s["k"], ob["kind"], ob["arg"]), dict(replay, observed=slim(ob), modes=st["modes"]), found_input=False)
                continue
            mv = model.get((ci, si))
            if not mv:
                continue
            allowed = parse_obs_list(mv[0][1])
            stats["evaluations"] += 1
            stats["allowed_sizes"].append(len(allowed))
            if len(allowed) > 1:
                stats["set_valued"] += 1
            okm, why = match_txn(topo, s, ob, st["modes"], allowed, st["nows"])
            stats["validated"] += 1
            if ob["kind"] == "ok" and any(b.get("name") not in [x.get("name") for x in ob["post"]] for b in ob["pre"]):
                stats["unban_events"] += 1
            if len(ob["contacts"]) > 1 and ob["kind"] in ("ok", "ok_err"):
                stats["silent_failovers"] += 1
            if not okm:
                col.violation("tie-broken", "%s step %d: observation is not one the model allows (%s): client %s %s, contacts %s, health checks %s, bans %s -> %s" %
                              (cid, s["k"], why, ob["kind"], ob["arg"], ob["contacts"], sorted(ob["hc"]), brief(ob["pre"]), brief(ob["post"])),
                              dict(replay, correspondence="Ban/Tie.v tie_txn vs ConnectionPool::get + client.rs ban sites", observed=slim(ob), modes=st["modes"], model_expr=mv[0][0], model_allows=mv[0][1][:3000]),
                              found_input=False)
                stats["violations"] += 1
            elif len(stats["samples"]) < 6 and (ob["post"] != ob["pre"] or len(ob["contacts"]) > 1):
                stats["samples"].append({"case": cid, "step": s["k"], "role": s.get("role"), "modes": st["modes"], "client": [ob["kind"], ob["arg"]], "contacts": ob["contacts"],
                                         "health_checked": sorted(ob["hc"]), "bans_before": brief(ob["pre"]), "bans_after": brief(ob["post"]), "model_allows": len(allowed)})
    return per_case


def brief(bans):
    return [(b.get("name") or b["host"].split(".")[-1], b["reason"]) for b in bans]


def slim(ob):
    return {k: (brief(v) if k in ("pre", "post") else v) for k, v in ob.items()}


def check_admin(col, topo, st, mv, replay, stats):
    s = st["s"]
    rows = [f["cols"] for f in st["frames"] if f.get("t") == "D"]
    errs = [(f.get("fields") or {}).get("M", "") for f in st["frames"] if f.get("t") == "E"]
    post = [(topo.of(b)["id"], b["reason"], b["ts"]) for b in st["post"]]
    t0s, t1s = st["t0"] // 1000, st["t1"] // 1000
    stats["admin_steps"] += 1
    if s["op"] in ("ban", "unban"):
        # the command names a HOST: it applies to every server of the pool with that host string, whatever its port / shard
        h = topo.by_name[s["b"]]["host"]
        same = [a for a in topo.addrs if a["host"] == h]
        after = {topo.of(b)["name"] for b in st["post"]}
        if len(same) > 1:
            stats["shared_host_admin_steps"] += 1
        if s["op"] == "unban":
            left = [a["name"] for a in same if a["name"] in after]
            if left:
                col.violation("counterexample", "%s step %d: UNBAN %s leaves %s banned (servers with that host: %s)" % (replay["case"], s["k"], h, left, [a["name"] for a in same]),
                              dict(replay, observed={"pre": brief(st["pre"]), "post": brief(st["post"])}))
                stats["violations"] += 1
        elif s.get("secs", 0) > 0:
            miss = [a["name"] for a in same if a["role"] == "R" and a["name"] not in after]
            if miss:
                col.violation("counterexample", "%s step %d: BAN %s %d does not ban %s (servers with that host: %s)" % (replay["case"], s["k"], h, s["secs"], miss, [a["name"] for a in same]),
                              dict(replay, observed={"pre": brief(st["pre"]), "post": brief(st["post"])}))
                stats["violations"] += 1
        stats["evaluations"] += 1
        stats["validated"] += 1
        ok = False
        for e, v in mv:
            bl = [(i, reason_str(r), ts) for (i, r, ts) in vlib.parse_coq(v)]
            if bl_match(bl, post, [t0s, t1s], t0s, t1s):
                ok = True
        stats["distinct"].add((topo.key(), s["op"], topo.by_name[s["b"]]["role"], s.get("secs"), tuple(sorted(str(b.get("name")) for b in st["pre"]))))
        if not ok:
            col.violation("tie-broken", "%s step %d: admin %s %s: ban list %s -> %s, model says %s" % (replay["case"], s["k"], s["op"], s["b"], brief(st["pre"]), brief(st["post"]), [v for _, v in mv]),
                          dict(replay, correspondence="Ban/Model.v admin_ban/admin_unban vs admin.rs", observed={"pre": st["pre"], "post": st["post"], "rows": rows}), found_input=False)
            stats["violations"] += 1
        if s["op"] == "ban" and topo.by_name[s["b"]]["role"] == "P" and rows:
            stats["obs_primary_ban_row"] += 1
    elif s["op"] == "showbans":
        # SHOW BANS lists exactly the entries with remaining time > 0 (admin.rs:538-541)
        now0, now1 = st["t0"] // 1000, st["t1"] // 1000
        listed = sorted((r[3], r[4]) for r in rows)
        must, may = [], []
        for b in st["pre"]:
            d = int(b["reason"][9:-1]) if b["reason"].startswith("AdminBan(") else topo.ban_time
            if d - (now1 - b["ts"]) > 0:
                must.append((b["host"], b["reason"]))
            if d - (now0 - b["ts"]) > 0:
                may.append((b["host"], b["reason"]))
        from collections import Counter
        cm, cl, cy = Counter(must), Counter(listed), Counter(may)
        if any(cl[k] < v for k, v in cm.items()) or any(cy[k] < v for k, v in cl.items()) or st["pre"] != st["post"]:
            col.violation("tie-broken", "%s step %d: SHOW BANS lists %s, ban list is %s" % (replay["case"], s["k"], listed, st["pre"]), dict(replay, observed={"rows": rows, "bans": st["pre"]}), found_input=False)
            stats["violations"] += 1
        if len(listed) < len(st["pre"]):
            stats["obs_showbans_hides_due"] += 1
    else:
        # malformed / no-op admin commands leave the ban list alone
        if st["pre"] != st["post"]:
            col.violation("counterexample", "%s step %d: '%s' changed the ban list %s -> %s" % (replay["case"], s["k"], s["sql"], st["pre"], st["post"]), dict(replay, observed={"rows": rows, "errors": errs}))
            stats["violations"] += 1
        stats["distinct"].add(("admin_raw", s["sql"], bool(errs)))


def check_site(run, col, s, ob, replay, stats):
    """(d): one backend hangs exactly at `site`; compare with Model.v's table (guard / known_unguarded)."""
    site, expect = s["site"], s["expect"]
    blocked = ob["kind"] == "blocked"
    stats["sites"][site] = {"expected": expect, "observed": "blocked" if blocked else "%s %s after %d ms" % (ob["kind"], ob["arg"], ob["t1"] - ob["t0"])}
    known = {e.get("id"): e for e in vlib.known_findings("C07")}
    if expect == "bounded" and blocked:
        col.violation("counterexample", "a backend hung at %s and the client got no answer within %d ms although the model's table says the await is guarded" % (site, s.get("wait", 5000)), dict(replay, observed=slim(ob)))
    elif expect == "blocked" and not blocked:
        col.violation("tie-broken", "a backend hung at %s; Model.v lists this await as unguarded, the implementation answered: %s %s" % (site, ob["kind"], ob["arg"]), dict(replay, observed=slim(ob)), found_input=False)
    elif expect == "blocked" and blocked:
        fid = "F10-unguarded-server-awaits"
        e = known.get(fid)
        if e is not None and e.get("status") == "fixed":
            col.violation("counterexample", "regression of %s: hung at %s, client blocked > %d ms" % (fid, site, s.get("wait", 5000)), dict(replay, observed=slim(ob), **{"class": fid}))
        else:
            line = (e.get("line") or e.get("what")) if e else None
            run.known_finding(line or ("%s %s%s" % (fid, FINDINGS[fid], " [reported, not yet listed in known_findings.jsonl]")), key=fid)


def new_stats():
    return {"steps": 0, "evaluations": 0, "validated": 0, "set_valued": 0, "allowed_sizes": [], "txn_kinds": {}, "distinct": set(), "monitor_failures": 0, "violations": 0,
            "harness_errors": 0, "unmodelled": {}, "samples": [], "admin_steps": 0, "unban_events": 0, "silent_failovers": 0, "sites": {}, "observed": {}, "client_fates": {}, "shapes": {}, "oob": {}, "unobservable": 0, "shared_host_admin_steps": 0, "obs_primary_ban_row": 0, "obs_showbans_hides_due": 0}


def check(run):
    quick = run.tier == "quick"
    rng = run.rng
    run.assumptions += [
        "Coq 8.16.1 kernel + vm_compute; no axioms (Print Assumptions: closed under the global context)",
        "coq/Ban/Model.v is a hand transcription of pool.rs get/run_health_check/ban/unban/is_banned/try_unban, the ban sites of client.rs and admin.rs BAN/UNBAN for ONE pool; "
        "bb8 (checkout error after connection_timeout, idle connections handed out unchecked), tokio timers and the clock are environment inputs (order, outcome per address, now)",
        "one clock reading per operation in the model; the tie tries every second between the step's start and end",
        "operations are atomic in the model (the code takes the banlist lock per access; concurrent checkouts interleave at that granularity) - the tie runs transactions one at a time",
        "the timeout table (guard / known_unguarded) is transcribed by hand; three guarded and three unguarded sites are exercised by hanging a backend exactly there, SRelaySend is [read] only",
    ]
    run.cov["trusted_base"] = ["coqc 8.16.1 kernel", "vm_compute", "coq/Ban/Model.v (hand model of pool.rs / client.rs / admin.rs ban logic)", "coq/Ban/Tie.v (enumeration; perms proved sound)",
                               "harness/src/mockpg.rs (mock PostgreSQL + fault modes), harness/src/bin/wire.rs, harness/src/pooler.rs, harness/src/client.rs", "props/c07.py generator, trace reader, monitors",
                               "Print Assumptions: Closed under the global context (all theorems)"]
    proof_ok, log = vlib.prove(run, COQ_FILES, "Ban/Props.v")
    run.log("proof ok=%s" % proof_ok)
    ok, blog, bins = vlib.cargo_build(["wire"])
    if not ok:
        run.violation("tie-broken", "harness does not build against /repo (API used by the correspondence changed)", {"correspondence": "wire harness build", "log": blog[-3000:]}, found_input=False)
        return
    wire = bins["wire"]
    stats = new_stats()
    cases = list(scripted(quick)) + [probe_busy_pool()] + probes_unguarded() + probes_observe()
    nscripted = len(cases)
    tops = topologies(quick)
    reps = 4 if quick else 60
    for rep in range(reps):
        for (roles, lb, hc) in tops:
            dr = rng.choice(["any", "any", "replica", "primary"])
            if dr == "replica" and "R" not in roles:
                dr = "any"
            if dr == "primary" and "P" not in roles:
                dr = "any"
            hosts = None
            if len(roles) >= 2 and rng.random() < 0.3:
                hosts = [rng.choice([20, 20, 21]) for _ in roles]       # servers sharing a host string
            topo = Topo([roles], lb=lb, hc=hc, default_role=dr, hosts=hosts)
            hl, init = random_schedule(rng, topo, rng.randint(6, 10))
            cases.append(("rnd-%s-%s-hc%d-%d" % ("".join(roles), lb, hc, rep), topo, hl, init))
    for rep in range(6 if quick else 80):
        topo = Topo([rng.choice([["P", "R", "R"], ["P", "R"], ["R", "R"]]), rng.choice([["P", "R"], ["P", "R", "R"], ["R"]])], lb=rng.choice(["random", "loc"]), hc=rng.random() < 0.6)
        hl, init = random_schedule(rng, topo, rng.randint(7, 10))
        cases.append(("rnd2-%d" % rep, topo, hl, init))
    run.log("%d schedules (%d scripted)" % (len(cases), nscripted))
    t0 = time.time()
    col = Col()
    tie_ready = proof_ok
    if not proof_ok and os.environ.get("VERIF_C07_MUTATION_TEST"):
        # self-test of the tie's discrimination with a deliberately wrong model (the proofs break first)
        tie_ready = vlib.coq_make(["Ban/Tie.vo"])[0]
    per_case = run_and_check(run, col, wire, cases, stats, "main") if tie_ready else []
    run.log("wire + model comparison: %.1fs, %d steps, %d model evaluations, %d schedules to confirm" % (time.time() - t0, stats["steps"], stats["evaluations"], len(col.cases())))
    # a disagreement is reported only if it shows again when the schedule runs alone (the machine is shared:
    # a stalled process can stretch a 300 ms timeout over several seconds and ban expiry is decided on whole seconds)
    transient = []
    by_id = {c[0]: c for c in cases}
    for cid in col.cases():
        confirmed = None
        for attempt in range(3):
            c2 = Col()
            _, topo, hl, init = by_id[cid]
            run_and_check(run, c2, wire, [(cid, topo, [{k: v for k, v in x.items() if k != "k"} for x in hl], init)], new_stats(), "confirm", workers=1)
            if c2.v:
                confirmed = c2
                break
        if confirmed:
            for (_, kind, what, rp, found) in confirmed.v:
                run.violation(kind, what, rp, found_input=found)
        else:
            transient.append({"case": cid, "first_pass": [w for (c, _, w, _, _) in col.v if c == cid][:3]})
    run.cov["transient_disagreements_not_reproduced"] = transient

    # observations (reported, not violations)
    obs = []
    for info in per_case:
        if info["id"] == "busy-pool" and "error" not in info:
            for st in info["steps"]:
                if not st.get("admin") and st["s"].get("busy"):
                    newb = [b for b in st["ob"]["post"] if b not in st["ob"]["pre"]]
                    waited = st["ob"]["t1"] - st["ob"]["t0"] >= CONNECT_TO - 20
                    if any(b["reason"] == "FailedCheckout" and st["modes"][topo_name(info, b)] == "normal" for b in newb) or (waited and st["ob"]["kind"] == "ok"):
                        obs.append("(c) pool_size=1, the only connection of healthy r0 held by an open transaction: the next checkout waits connect_timeout for a free slot, r0 is banned FailedCheckout although healthy "
                                   "(r1 admin-banned: popped first => skipped, the client is refused AllServersDown; popped second => all replicas banned => reset, r1 serves)")
                        break
    run.cov["observations"] = sorted(set(obs)) + (["admin BAN <host of a primary> answers with a row for the primary although nothing is banned (%d times)" % stats["obs_primary_ban_row"]] if stats["obs_primary_ban_row"] else []) + \
        (["SHOW BANS hides an entry whose remaining time is <= 0 while try_unban (strict >) still treats it as banned (%d times)" % stats["obs_showbans_hides_due"]] if stats["obs_showbans_hides_due"] else [])
    ob = stats["observed"].get("sync_fail")
    if ob and ob["client"][0] == "closed_silent" and ob["bans_after"] == ob["bans_before"]:
        obs.append("(f) a server connection that breaks inside sync_parameters (client.rs:1160, stale idle connection of a server that went away, no health check due): the client is disconnected without an error message and the replica is NOT banned (it is banned FailedCheckout at the next attempt)")
    ob = stats["observed"].get("wedge")
    if ob and ob["client"][0] == "refused" and ob["modes"].get("r1") == "normal":
        obs.append("(e) a connection attempt that hung in startup is never abandoned (Server::startup has no timeout; connect_timeout only bounds the waiting client): 2.5 s after the server answers again its pool still cannot connect, "
                   "the healthy replica is banned FailedCheckout again and role=replica is refused")
    run.cov["observations"] = sorted(set(obs)) + [o for o in run.cov["observations"] if o not in obs]
    run.cov["sites_exercised"] = stats["sites"]
    run.cov["evaluations"] = stats["evaluations"]
    run.cov["distinct_nontrivial"] = len(stats["distinct"])
    run.cov["traces_validated_against_impl"] = stats["validated"]
    run.cov["set_valued_cases"] = stats["set_valued"]
    run.cov["schedules"] = len(cases)
    run.cov["steps_observed"] = stats["steps"]
    run.cov["client_outcomes"] = stats["txn_kinds"]
    run.cov["client_fate_x_statement_outcome"] = stats["client_fates"]
    run.cov["unobservable_steps"] = stats["unobservable"]
    run.cov["admin_steps_on_a_host_shared_by_several_servers"] = stats["shared_host_admin_steps"]
    run.cov["statement_shape_x_fault_x_client_fate"] = stats["shapes"]
    run.cov["out_of_band_reprepare"] = {k: {"n": len(v), "e.g.": v[0]} for k, v in stats["oob"].items()}
    # the RST fate is only meaningful if pgcat's write of the error to that client really fails
    wf = sum(sum(1 for r in (info["res"].get("task_results") or []) if "Error writing to socket" in r) for info in per_case if "error" not in info)
    run.cov["client_write_failures_observed"] = wf
    rst_exec = sum(v for k, v in stats["client_fates"].items() if k.startswith("rst/K"))
    if rst_exec >= 5 and wf == 0:
        run.broken.append("%d statements failed on a replica after their client had reset its socket, yet pgcat never failed to write to a client: the RST fate is not exercised" % rst_exec)
    run.cov["silent_failovers_observed"] = stats["silent_failovers"]
    run.cov["unban_events_observed"] = stats["unban_events"]
    run.cov["admin_steps"] = stats["admin_steps"]
    run.cov["harness_errors"] = stats["harness_errors"]
    run.cov["rule"] = ("every (shard shape 0-3 replicas x with/without primary, load balancing random/loc, health check forced/skipped) x %d seeded random schedules of 6-10 steps "
                       "(mode switch among %s, admin BAN/UNBAN/SHOW BANS, transaction with role replica/primary/any/default), %d two-shard schedules, %d scripted schedules (each fault kind at checkout and at "
                       "statement time, all-down and recovery, primary down, no replica, single replica, real-time expiry, strict '>' at a second boundary, admin durations and arguments, busy pool, one hang per await site). "
                       "distinct = distinct (topology, role, shard, modes of all backends, ban-list shape before, client outcome) per transaction + distinct admin situations" % (reps, MODES, 6 if quick else 80, nscripted))
    run.cov["samples"] = stats["samples"][:6]
    run.cov["input_distribution"] = {"schedules": len(cases), "transactions": sum(stats["txn_kinds"].values()), "admin_steps": stats["admin_steps"],
                                     "model_allowed_set_size_max": max(stats["allowed_sizes"] or [0]), "model_allowed_set_size_mean": round(sum(stats["allowed_sizes"]) / max(1, len(stats["allowed_sizes"])), 2)}
    if stats["harness_errors"] > max(2, len(cases) // 20):
        run.broken.append("%d of %d wire scenarios did not produce a trace" % (stats["harness_errors"], len(cases)))

    if not proof_ok and not run.violations and not run.broken:
        run.violation("proof-broken", "Ban/Props.v no longer checks", {"theorem": "Ban/Props.v", "coq_log": log[-2500:]}, found_input=False)
    if not quick and proof_ok:
        vlib.coqchk(run, ["PV.Ban.Props"])


def topo_name(info, b):
    return b.get("name") or ("r%d" % (int(b["host"].split(".")[-1]) - 10) if b["role"] == "Replica" else "p%d" % (int(b["host"].split(".")[-1]) - 10))


def replay(run, path):
    r = json.load(open(path))
    print(json.dumps({k: v for k, v in r.items() if k not in ("model_allows",)}, indent=1)[:4000])
    if "schedule" not in r:
        return 0
    ok, blog, bins = vlib.cargo_build(["wire"])
    if not ok:
        print("harness does not build"); return 2
    tp = r["topology"]
    topo = Topo(tp["shards"], lb=tp["lb"], hc=tp["healthcheck"], default_role=tp.get("default_role", "any"), pool_size=tp.get("pool_size", 2), ban_time=tp.get("ban_time", 60), ps_cache=tp.get("ps_cache", 0), stmt_to=tp.get("stmt_to", STMT_TO), hosts=tp.get("hosts"))
    hl = [dict(x) for x in r["schedule"]]
    stats = new_stats()
    col = Col()
    for attempt in range(8):       # the candidate order is random: repeat
        run_and_check(run, col, bins["wire"], [(r.get("case", "replay"), topo, [dict(x) for x in hl], r.get("initial_modes"))], stats, "replay", workers=1)
        if col.v:
            break
    print("replay: %d steps, %d model evaluations, reproduced=%s" % (stats["steps"], stats["evaluations"], bool(col.v)))
    for (_, kind, what, _, _) in col.v[:3]:
        print("  ->", kind, what)
    return 1 if col.v else 0
