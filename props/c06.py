"""C06 — a sharding key always maps to PostgreSQL's hash partition, by every routing path.

P: coq/Shard/Props.v over coq/Gen/ShardingGen.v, which is REGENERATED from
   /repo/src/sharding.rs on every run (T1), against the hand-written PostgreSQL
   specification coq/Shard/PgSpec.v.
T2: real Sharder / QueryRouter (harness bin `router`) vs the generated model evaluated in
   coqc vs independent Python oracles, on boundary + random keys and on every delivery path.
"""
import hashlib, json, os, struct, subprocess, sys
import vlib
from props import routerlib as RL
from props import wirelib as W

M32, M64 = (1 << 32) - 1, (1 << 64) - 1
COQ_FILES = ["Common/RustInt.v", "Shard/PgSpec.v", "Shard/HashProofs.v", "Shard/Paths.v",
             "Shard/PathsProofs.v", "Shard/Sha1.v", "Shard/Sha1Proofs.v", "Shard/Spellings.v", "Shard/Props.v"]


# ---- independent oracle: PostgreSQL hashfn.c / hashfunc.c transcribed to Python -----------
def _rot(x, k):
    return ((x << k) | (x >> (32 - k))) & M32


def pg_hash_uint32_extended(k, seed):
    a = b = c = (0x9e3779b9 + 4 + 3923095) & M32
    if seed != 0:
        a = (a + (seed >> 32)) & M32
        b = (b + (seed & M32)) & M32
        a = (a - c) & M32; a ^= _rot(c, 4); c = (c + b) & M32
        b = (b - a) & M32; b ^= _rot(a, 6); a = (a + c) & M32
        c = (c - b) & M32; c ^= _rot(b, 8); b = (b + a) & M32
        a = (a - c) & M32; a ^= _rot(c, 16); c = (c + b) & M32
        b = (b - a) & M32; b ^= _rot(a, 19); a = (a + c) & M32
        c = (c - b) & M32; c ^= _rot(b, 4); b = (b + a) & M32
    a = (a + k) & M32
    c ^= b; c = (c - _rot(b, 14)) & M32
    a ^= c; a = (a - _rot(c, 11)) & M32
    b ^= a; b = (b - _rot(a, 25)) & M32
    c ^= b; c = (c - _rot(b, 16)) & M32
    a ^= c; a = (a - _rot(c, 4)) & M32
    b ^= a; b = (b - _rot(a, 14)) & M32
    c ^= b; c = (c - _rot(b, 24)) & M32
    return (b << 32) | c


def pg_partition(k, n):
    u = k & M64
    lo, hi = u & M32, u >> 32
    lo ^= hi if k >= 0 else (~hi & M32)
    h = pg_hash_uint32_extended(lo, 0x7A5B22367996DCFD)
    a = 0
    a ^= (h + 0x49a0f4dd15e5a8e3 + ((a << 54) & M64) + (a >> 7)) & M64
    return a % n


def sha1_rule(k, n):
    return int(hashlib.sha1(str(k).encode()).hexdigest()[-8:], 16) % n


def rust_parse_i64(s: bytes):
    """Rust i64::from_str on the byte string (bytes are mapped to chars 1:1)."""
    if not s:
        return None
    body = s[1:] if s[:1] in (b"+", b"-") else s
    if not body or not all(48 <= c <= 57 for c in body):
        return None
    v = int(body.decode())
    if s[:1] == b"-":
        v = -v
    return v if -(1 << 63) <= v < (1 << 63) else None


BOUND = [0, 1, -1, 2, -2, 5, 12345, 2**31 - 1, 2**31, 2**31 + 1, -2**31, -2**31 - 1, 2**32 - 1, 2**32, 2**32 + 1,
         -2**32, -2**32 + 1, -2**32 - 1, 2**63 - 1, -2**63, -2**63 + 1, 2**62, -2**62, 0x7A5B22367996DCFD,
         0x00000001FFFFFFFF, -0x00000001FFFFFFFF, 0x0000000100000000, 0x7FFFFFFF00000000, -0x7FFFFFFF00000000]
PGVEC = {0: [1, 4, 5, 14, 19, 39, 40, 46, 47, 53], 1: [2, 3, 11, 17, 21, 23, 30, 49, 51, 54],
         2: [6, 7, 15, 16, 18, 20, 25, 28, 34, 35], 3: [8, 12, 13, 22, 29, 31, 33, 36, 41, 43],
         4: [9, 10, 24, 26, 27, 32, 37, 38, 42, 45]}


def gen_keys(rng, nrand):
    ks = list(BOUND) + [k for v in PGVEC.values() for k in v]
    for _ in range(nrand):
        w = rng.choice([8, 16, 31, 32, 33, 48, 63, 64])
        k = rng.getrandbits(w)
        if rng.random() < 0.5:
            k = -k
        k = max(-(1 << 63), min((1 << 63) - 1, k))
        ks.append(k)
    return ks


def bind_msg(params, fmts):
    b = b"\0\0" + struct.pack(">h", len(fmts)) + b"".join(struct.pack(">h", f) for f in fmts) + struct.pack(">h", len(params))
    for p in params:
        if p is None:
            b += struct.pack(">i", -1)
        else:
            b += struct.pack(">i", len(p)) + p
    b += struct.pack(">h", 0)
    return (b"B" + struct.pack(">i", len(b) + 4) + b).hex()


def translate(run):
    os.makedirs(os.path.join(vlib.COQ, "Gen"), exist_ok=True)
    out = os.path.join(vlib.COQ, "Gen", "ShardingGen.v")
    tmp = out + ".new"
    rc, log = vlib.sh([sys.executable, os.path.join(vlib.ROOT, "translate", "rs_arith2v.py"),
                       os.path.join(vlib.REPO, "src", "sharding.rs"), tmp], timeout=60)
    if rc != 0:
        return False, log.strip()
    new = open(tmp).read()
    if not os.path.exists(out) or open(out).read() != new:
        os.replace(tmp, out)
    else:
        os.remove(tmp)
    return True, ""


def real_shards(router, func, n, keys):
    case = {"settings": {"shards": n, "func": func}, "steps": [{"op": "shard", "key": k} for k in keys]}
    (res,) = RL.run_router(router, [case])
    return [o.get("result", "PANIC:" + str(o.get("panic"))) for o in res["out"]]


def search_hash_witness(run, router, keys, moduli):
    """monitor search: real Sharder vs PostgreSQL (python oracle), no model involved."""
    for n in moduli:
        got = real_shards(router, "pg", n, keys)
        for k, g in zip(keys, got):
            if g != pg_partition(k, n):
                return {"key": k, "shards": n, "function": "pg_bigint_hash", "impl": g, "postgres": pg_partition(k, n)}
        got = real_shards(router, "sha1", n, keys)
        for k, g in zip(keys, got):
            if g != sha1_rule(k, n):
                return {"key": k, "shards": n, "function": "sha1", "impl": g, "documented_rule": sha1_rule(k, n)}
    return None


def check(run):
    quick = run.tier == "quick"
    rng = run.rng
    run.assumptions += [
        "Coq 8.16.1 kernel + vm_compute (no native_compute); no axioms (Print Assumptions: closed)",
        "translate/rs_arith2v.py renders the straight-line integer Rust of src/sharding.rs faithfully (validated each run: real Sharder vs generated model on the sampled keys)",
        "coq/Shard/PgSpec.v transcribes PostgreSQL's hashfn.c/hashfunc.c/partbounds.c correctly (validated against the 50 vectors obtained from a real PostgreSQL and an independent Python transcription)",
        "coq/Shard/Sha1.v is a hand-written SHA-1 (validated against the FIPS vector 'abc', the repo's 20 vectors and, per run, the sha-1 crate and python hashlib)",
        "sqlparser / regex crates deliver the literal / capture group text unchanged (environment)",
    ]
    run.cov["trusted_base"] = ["coqc 8.16.1 kernel", "vm_compute", "translate/rs_arith2v.py", "coq/Shard/PgSpec.v (hand transcription of PostgreSQL C)",
                               "harness/src/bin/router.rs", "props/c06.py oracles", "Print Assumptions: Closed under the global context (all theorems)"]
    # 1+2. translate and prove
    tr_ok, tr_msg = translate(run)
    proof_ok, log = (False, tr_msg)
    if tr_ok:
        proof_ok, log = vlib.prove(run, COQ_FILES, "Shard/Props.v")
    run.log("translate ok=%s proof ok=%s" % (tr_ok, proof_ok))
    # 3. harness
    ok, blog, bins = vlib.cargo_build(["router"])
    if not ok:
        run.violation("tie-broken", "harness does not build against /repo (API used by the correspondence changed)",
                      {"correspondence": "router harness build", "log": blog[-3000:]}, found_input=False)
        return
    router = bins["router"]

    nrand = 1500 if quick else 60000
    keys = gen_keys(rng, nrand)
    moduli = [1, 2, 3, 5, 7, 12, 16, 64, 2**31, 2**32 + 1] if quick else list(range(1, 65)) + [2**31, 2**32 + 1, 2**63]
    evals = 0
    samples = []
    distinct = set()

    # 4a. hash: real vs python oracles (all keys x moduli), both functions
    for n in moduli:
        for func, oracle in (("pg", pg_partition), ("sha1", sha1_rule)):
            got = real_shards(router, func, n, keys)
            for k, g in zip(keys, got):
                evals += 1
                distinct.add((func, n, k))
                if g != oracle(k, n):
                    run.violation("counterexample", "Sharder::shard(%d) with %d shards (%s) = %r, expected %d" % (k, n, func, g, oracle(k, n)),
                                  {"input": {"key": k, "shards": n, "function": func}, "impl": g, "expected": oracle(k, n)})
                    break
            if run.violations:
                break
        if run.violations:
            break
    samples.append({"kind": "hash", "key": keys[7], "shards": 5, "pg": pg_partition(keys[7], 5), "sha1": sha1_rule(keys[7], 5)})

    # 4b. generated model evaluated in Coq vs real code (validates the translator + PgSpec executable)
    if tr_ok and proof_ok and not run.violations:
        sub = BOUND + [k for v in PGVEC.values() for k in v] + keys[len(BOUND) + 50:][: (300 if quick else 3000)]
        pairs = [(k, n) for k in sub for n in ([5, 7, 2**32 + 1] if quick else [1, 5, 7, 64, 2**32 + 1])]
        exprs = ["(shard_pg (%d)%%Z %d%%N, partition_of (%d)%%Z %d%%N)" % (k, n, k, n) for k, n in pairs]
        vals = vlib.coq_eval("c06", "From PV Require Import Gen.ShardingGen Shard.PgSpec.\nFrom Coq Require Import ZArith NArith.", exprs)
        by_n = {}
        for (k, n), v in zip(pairs, vals):
            by_n.setdefault(n, []).append((k, vlib.parse_coq(v)))
        for n, lst in by_n.items():
            got = real_shards(router, "pg", n, [k for k, _ in lst])
            for (k, (m, s)), g in zip(lst, got):
                evals += 1
                run.cov["traces_validated_against_impl"] += 1
                if not (m == s == g):
                    run.violation("tie-broken", "generated model / PgSpec / implementation disagree on key %d, %d shards: model=%s spec=%s impl=%s" % (k, n, m, s, g),
                                  {"correspondence": "ShardingGen.shard_pg vs Sharder::shard", "input": {"key": k, "shards": n}, "model": m, "spec": s, "impl": g},
                                  found_input=(g != pg_partition(k, n)))
                    break
        samples.append({"kind": "coq-eval", "expr": exprs[0], "value": vals[0]})
        # SHA-1 model (coq/Shard/Sha1.v) vs the real Sharder, sample of keys
        ssub = BOUND + keys[len(BOUND) + 50:][: (60 if quick else 1500)]
        sex = ["sha1_shard (%d)%%Z 12%%N" % k for k in ssub]
        svals = vlib.coq_eval("c06s", "From PV Require Import Shard.Sha1.\nFrom Coq Require Import ZArith NArith.", sex, shard=20)
        got = real_shards(router, "sha1", 12, ssub)
        for k, v, g in zip(ssub, svals, got):
            evals += 1
            run.cov["traces_validated_against_impl"] += 1
            m = vlib.parse_coq(v)
            if m != ("Some", g):
                run.violation("tie-broken", "SHA-1 model and implementation disagree on key %d, 12 shards: model=%s impl=%s" % (k, m, g),
                              {"correspondence": "Shard/Sha1.v sha1_shard vs Sharder::shard (Sha1)", "input": {"key": k, "shards": 12}, "model": str(m), "impl": g},
                              found_input=(g != sha1_rule(k, 12)))
                break
        samples.append({"kind": "coq-eval-sha1", "expr": sex[0], "value": svals[0]})

    # 4c. delivery paths through the real QueryRouter
    if not run.violations:
        evals += check_paths(run, router, keys, quick, samples, distinct)

    # 4d. wire level: the selected shard decides which backend executes; SET SHARD range check and restore
    if not run.violations:
        evals += check_wire(run, keys, quick, samples, distinct)

    run.cov["evaluations"] = evals
    run.cov["distinct_nontrivial"] = len(distinct)
    run.cov["rule"] = ("keys: %d boundary values (0, +-1, +-2^31, +-2^32, 2^63-1, -2^63, ...), the 50 PostgreSQL-derived vectors of the repo test, %d seeded random keys of mixed widths; "
                       "moduli %s; both sharding functions; each key pushed through SET SHARDING KEY, comment regex, SQL literal, text Bind, binary Bind 2/4/8 and malformed spellings. "
                       "distinct = distinct (function|path, shards, key|spelling) triples" % (len(BOUND), nrand, moduli if quick else "1..64, 2^31, 2^32+1, 2^63"))
    run.cov["samples"] = samples[:8]
    run.cov["input_distribution"] = {"keys": len(keys), "negative": sum(1 for k in keys if k < 0), "beyond_32bit": sum(1 for k in keys if abs(k) >= 2**32), "moduli": len(moduli)}

    # 5. decide on a broken proof / translator
    if not (tr_ok and proof_ok) and not run.violations and not run.broken:
        w = search_hash_witness(run, router, gen_keys(rng, 20000), list(range(1, 33)) + [2**31, 2**32 + 1])
        name = "translator shape (translate/rs_arith2v.py on src/sharding.rs)" if not tr_ok else "Shard/Props.v (c06_hash_is_pg and dependants)"
        if w:
            run.violation("counterexample", "proof obligation %s no longer checks and the implementation disagrees with PostgreSQL on %s" % (name, w),
                          {"theorem": name, "input": w, "coq_log": log[-2500:]})
        else:
            run.violation("proof-broken", "proof obligation %s no longer checks; no failing key found in the search" % name,
                          {"theorem": name, "coq_log": log[-2500:]}, found_input=False)
    if not quick and proof_ok:
        vlib.coqchk(run, ["PV.Shard.Props"])


AUTO_KEYS = ["data.id", "Data.Id", "DATA.ID", "dAtA.iD", "*.Id"]
STMT_IDENTS = [("data", "id"), ("DATA", "ID"), ("Data", "iD"), ("public.data", "Id"), ("data", "data.ID")]


def check_paths(run, router, keys, quick, samples, distinct):
    evals = 0
    cfgs = []
    sub = BOUND + keys[len(BOUND):][: (150 if quick else 4000)]
    spell_extra = [b"", b"+5", b"-5", b"05", b"005", b"5a", b" 5", b"5 ", b"99999999999999999999", b"9223372036854775808",
                   b"-9223372036854775808", b"-9223372036854775809", b"+9223372036854775807", b"--5", b"+", b"-", b"1e3", b"0x10"]
    cases, meta = [], []
    for func in ("pg", "sha1"):
        for n in ([5, 12] if quick else [1, 3, 5, 12, 64]):
            oracle = pg_partition if func == "pg" else sha1_rule
            for ki, k in enumerate(sub):
                # the configured key and the statement's identifiers in every case spelling: unquoted identifiers fold,
                # the configured key is compared case-insensitively (validation only strips its quotes)
                base = {"shards": n, "func": func, "parser": True, "splitting": True, "auto_key": AUTO_KEYS[ki % len(AUTO_KEYS)],
                        "key_regex": r"/\* sharding_key: (\d+) \*/"}
                tb, col = STMT_IDENTS[(ki // len(AUTO_KEYS)) % len(STMT_IDENTS)]
                steps, exp = [], []
                if k >= 0:
                    steps.append({"op": "command", "sql": "SET SHARDING KEY TO '%d'" % k}); exp.append(("set_key", oracle(k, n)))
                    steps.append({"op": "command", "sql": "/* sharding_key: %d */ SELECT 1" % k}); exp.append(("comment", oracle(k, n)))
                    steps.append({"op": "route", "sql": "SELECT * FROM %s WHERE %s = %d" % (tb, col, k)}); exp.append(("literal", oracle(k, n)))
                if k >= 0 and n > 1:
                    # the key-carrying statement inside a multi-statement simple Query, next to statements that carry no key
                    # (writes and reads, before and after it), with a DIFFERENT shard selected beforehand
                    rd = "SELECT * FROM %s WHERE %s = %d" % (tb, col, k)
                    shapes = ["UPDATE counters SET n = n + 1; %s", "%s; UPDATE counters SET n = n + 1", "SELECT 1; %s", "%s; SELECT now()",
                              "DELETE FROM audit WHERE ts < now(); SELECT 2; %s", "INSERT INTO audit (what) VALUES ('x'); %s; SELECT 3",
                              "SELECT * FROM counters FOR UPDATE; %s", "CREATE TEMP TABLE t_x (a int); %s"]
                    for sj in (ki % len(shapes), (ki * 3 + 1) % len(shapes)):
                        steps.append({"op": "command", "sql": "SET SHARD TO %d" % ((oracle(k, n) + 1 + ki % (n - 1)) % n)}); exp.append(("set_shard", None))
                        steps.append({"op": "route", "sql": shapes[sj] % rd}); exp.append(("literal_multi%d" % sj, oracle(k, n)))
                steps.append({"op": "route", "proto": "P", "sql": "SELECT * FROM %s WHERE %s = $1" % (tb, col)}); exp.append(("parse", None))
                steps.append({"op": "bind", "hex": bind_msg([str(k).encode()], [])}); exp.append(("bind_text", oracle(k, n)))
                steps.append({"op": "route", "proto": "P", "sql": "SELECT * FROM %s WHERE %s = $1" % (tb, col)}); exp.append(("parse", None))
                steps.append({"op": "bind", "hex": bind_msg([struct.pack(">q", k)], [1])}); exp.append(("bind_bin8", oracle(k, n)))
                if -2**31 <= k < 2**31:
                    steps.append({"op": "route", "proto": "P", "sql": "SELECT * FROM %s WHERE %s = $1" % (tb, col)}); exp.append(("parse", None))
                    steps.append({"op": "bind", "hex": bind_msg([struct.pack(">i", k)], [1])}); exp.append(("bind_bin4", oracle(k, n)))
                if -2**15 <= k < 2**15:
                    steps.append({"op": "route", "proto": "P", "sql": "SELECT * FROM %s WHERE %s = $1" % (tb, col)}); exp.append(("parse", None))
                    steps.append({"op": "bind", "hex": bind_msg([struct.pack(">h", k)], [1, ])}); exp.append(("bind_bin2", oracle(k, n)))
                cases.append({"settings": base, "steps": steps}); meta.append((func, n, k, exp))
    # activity-based routing on (F39): a read pinned to the primary because the database is in its Initializing window
    # (fresh database name, long init delay => deterministic) or because its table was written a moment ago
    # (mutation cache) still has to be routed by its key; the shard selected beforehand differs
    for ki, k in enumerate([x for x in sub if x >= 0][:24 if quick else 200]):
        n, func, oracle = 5, "pg", pg_partition
        base = {"shards": n, "func": func, "parser": True, "splitting": True, "auto_key": "data.id", "activity": True,
                "db": "c06_act_%d_%d" % (os.getpid(), ki), "activity_init_delay": 60000 if ki % 2 == 0 else 0}
        other = (oracle(k, n) + 1 + ki % (n - 1)) % n
        steps, exp = [], []
        if ki % 2:
            steps.append({"op": "route", "sql": "UPDATE data SET v = v + 1 WHERE v > 3"}); exp.append(("act_write", None))
        steps.append({"op": "command", "sql": "SET SHARD TO %d" % other}); exp.append(("set_shard", None))
        steps.append({"op": "route", "sql": "SELECT * FROM data WHERE id = %d" % k}); exp.append(("literal_activity_%s" % ("cache" if ki % 2 else "init"), oracle(k, n)))
        steps.append({"op": "command", "sql": "SET SHARD TO %d" % other}); exp.append(("set_shard", None))
        steps.append({"op": "route", "sql": "SELECT 1; SELECT v FROM data WHERE data.id = %d" % k}); exp.append(("literal_activity_multi", oracle(k, n)))
        cases.append({"settings": base, "steps": steps}); meta.append((func, n, k, exp))
    res = RL.run_router(router, cases)
    for (func, n, k, exp), r in zip(meta, res):
        for (path, want), o in zip(exp, r["out"]):
            if want is None:
                continue
            evals += 1
            distinct.add((path, n, k))
            got = o["state"]["shard"] if "panic" not in o else "PANIC"
            if got != want:
                run.violation("counterexample", "key %d via %s (%s, %d shards) selects shard %r, PostgreSQL/the rule says %d" % (k, path, func, n, got, want),
                              {"input": {"key": k, "path": path, "function": func, "shards": n}, "impl": got, "expected": want})
                return evals
    samples.append({"kind": "paths", "key": meta[3][2], "steps": [p for p, w in meta[3][3] if w is not None]})

    # sequences of shard-selecting events on ONE router, with few distinct keys so that repeats are common:
    # the selection must be the one of the last selecting event (Paths.sel_run)
    r3 = run.rng
    nsq = 7
    SQ = {"shards": nsq, "func": "pg", "parser": True, "splitting": True, "auto_key": "data.id", "key_regex": r"/\* sharding_key: (\d+) \*/"}
    seq_cases, seq_exprs, seq_meta = [], [], []
    for t in range(150 if quick else 3000):
        pool_keys = [abs(r3.choice(sub)) % (2**63) for _ in range(r3.choice([1, 2, 3]))]
        steps, sel = [], []
        for i in range(r3.randint(3, 9)):
            k = r3.choice(pool_keys)
            c = r3.random()
            if c < 0.22:
                steps.append({"op": "command", "sql": "SET SHARDING KEY TO '%d'" % k}); sel.append("SelKey (%d)%%Z" % k)
            elif c < 0.38:
                steps.append({"op": "command", "sql": "/* sharding_key: %d */ SELECT 1" % k}); sel.append("SelKey (%d)%%Z" % k)
            elif c < 0.55:
                steps.append({"op": "route", "sql": "SELECT * FROM data WHERE id = %d" % k}); sel.append("SelKey (%d)%%Z" % k)
            elif c < 0.7:
                steps.append({"op": "route", "proto": "P", "sql": "SELECT * FROM data WHERE id = $1"})
                steps.append({"op": "bind", "hex": bind_msg([str(k).encode()], [])}); sel.append("SelNone"); sel.append("SelKey (%d)%%Z" % k)
            elif c < 0.88:
                v = r3.randint(0, nsq - 1)
                # the library level has no range check (client.rs does it): only in-range values here
                steps.append({"op": "command", "sql": "SET SHARD TO '%d'" % v}); sel.append("SelShard %d%%N" % v)
            else:
                steps.append({"op": "route", "sql": "SELECT 1"}); sel.append("SelNone")
        seq_cases.append({"settings": SQ, "steps": steps})
        seq_exprs.append("sel_run (fun k => partition_of k %d%%N) %d%%N None [%s]" % (nsq, nsq, "; ".join(sel)))
        seq_meta.append([s.get("sql") or "bind" for s in steps])
    seq_vals = vlib.coq_eval("c06q", "From PV Require Import Shard.Paths Shard.PgSpec.\nFrom Coq Require Import ZArith NArith List. Import ListNotations.", seq_exprs)
    seq_res = RL.run_router(router, seq_cases)
    for meta, v, rr in zip(seq_meta, seq_vals, seq_res):
        evals += 1
        distinct.add(("seq", tuple(meta)))
        run.cov["traces_validated_against_impl"] += 1
        want = vlib.parse_coq(v)
        want = want[1] if isinstance(want, tuple) else None
        o = rr["out"][-1]
        got = "Panics" if any("panic" in x for x in rr["out"]) else o["state"]["shard"]
        if got != want:
            run.violation("counterexample", "after the sequence %s the router's shard is %r, the last selecting event gives %r" % (meta, got, want),
                          {"correspondence": "Shard/Paths.v sel_run vs QueryRouter", "input": {"steps": meta, "shards": nsq}, "model": want, "impl": got})
            return evals
    samples.append({"kind": "selection_sequence", "steps": seq_meta[0], "model": seq_vals[0]})

    # multi-parameter Binds: the key at every position among arbitrary other parameters
    r2 = run.rng
    mcases, mexprs, mmeta = [], [], []
    n = 7
    S2 = {"shards": n, "func": "pg", "parser": True, "splitting": True, "auto_key": "data.id"}
    for t in range(120 if quick else 1500):
        m = r2.randint(1, 5)
        j = r2.randint(1, m)
        k = r2.choice(sub)
        mode = r2.choice(["none", "uniform_text", "uniform_bin", "per"])
        fm = {"none": [], "uniform_text": [0], "uniform_bin": [1], "per": [r2.randint(0, 1) for _ in range(m)]}[mode]
        if m == 1 and mode == "per":
            fm = [fm[0]]

        def isbin(i):
            return (fm[0] if len(fm) == 1 else (fm[i] if fm else 0)) == 1
        params = []
        for i in range(m):
            if i + 1 == j:
                if isbin(i):
                    params.append(struct.pack(">q", k))
                else:
                    params.append(str(k).encode() if r2.random() < 0.9 else b"notanumber")
            else:
                c = r2.random()
                if c < 0.2:
                    params.append(None)
                elif c < 0.5:
                    params.append(bytes(r2.getrandbits(8) for _ in range(r2.choice([0, 1, 2, 3, 4, 5, 8, 9, 17]))))
                elif c < 0.8:
                    params.append(str(r2.randint(-10**6, 10**6)).encode())
                else:
                    params.append(b"hello world")
        conds = " AND ".join(("id = $%d" % (i + 1)) if i + 1 == j else ("c%d = $%d" % (i, i + 1)) for i in range(m))
        shape = r2.choice(["select", "update"])
        if shape == "update" and m > 1:
            sets = ", ".join("c%d = $%d" % (i, i + 1) for i in range(m) if i + 1 != j)
            sql = "UPDATE data SET %s WHERE id = $%d" % (sets, j)
        else:
            sql = "SELECT * FROM data WHERE " + conds
        mcases.append({"settings": S2, "steps": [{"op": "route", "proto": "P", "sql": sql}, {"op": "bind", "hex": bind_msg(params, fm)}]})
        plist = "[" + "; ".join("None" if p is None else "Some " + vlib.coq_bytes(p) for p in params) + "]"
        mexprs.append("(bind_keys [%d%%nat] [%s] %s)" % (j, "; ".join("true" if f else "false" for f in fm), plist))
        mmeta.append((sql, j, k, fm, [None if p is None else p.hex() for p in params]))
    mvals = vlib.coq_eval("c06b", "From PV Require Import Shard.Paths.\nFrom Coq Require Import ZArith NArith List. Import ListNotations.", mexprs)
    mres = RL.run_router(router, mcases)
    for (sql, j, k, fm, ph), v, r in zip(mmeta, mvals, mres):
        evals += 1
        distinct.add(("bind_multi", j, k, tuple(fm), tuple(ph)))
        run.cov["traces_validated_against_impl"] += 1
        mk = vlib.parse_coq(v)
        o = r["out"][-1]
        got = "Panics" if "panic" in o else o["state"]["shard"]
        want_sh = pg_partition(mk[0], n) if len(mk) == 1 else None
        if got != want_sh:
            kind = "counterexample" if (got == "Panics" or (mk == [k] and got != pg_partition(k, n))) else "tie-broken"
            run.violation(kind, "Bind with the key at position %d of %d parameters: implementation selects %r, model %r (statement %s)" % (j, len(ph), got, want_sh, sql),
                          {"correspondence": "Shard/Paths.v bind_keys vs QueryRouter::infer_shard_from_bind", "input": {"sql": sql, "key_position": j, "key": k, "formats": fm, "params_hex": ph},
                           "model_keys": mk, "impl": got, "expected_shard": want_sh})
            return evals
    samples.append({"kind": "bind_multi", "sql": mmeta[0][0], "key_position": mmeta[0][1], "key": mmeta[0][2], "formats": mmeta[0][3], "params_hex": mmeta[0][4], "model": mvals[0]})

    # sequences of Parse/Bind pairs on ONE router: every Bind is read against the placeholders of ITS statement only
    # (a Bind without a usable key - NULL, non-numeric, empty - changes nothing and leaves nothing behind)
    TEMPL = [("SELECT * FROM data WHERE id = $1", [1], 1), ("SELECT * FROM data WHERE c1 = $1 AND id = $2", [2], 2),
             ("SELECT * FROM data WHERE c1 = $1", [], 1), ("UPDATE data SET c1 = $1 WHERE id = $2", [2], 2),
             ("SELECT * FROM other WHERE x = $1 AND y = $2", [], 2), ("SELECT * FROM data WHERE id = $1 AND c1 = $2", [1], 2),
             ("DELETE FROM data WHERE c2 = $1 AND c3 = $2 AND id = $3", [3], 3)]
    r4 = run.rng
    n = 7
    qcases, qexprs, qmeta = [], [], []
    for t in range(160 if quick else 2500):
        steps, pairs = [], []
        for i in range(r4.randint(2, 5)):
            sql, pos, m = r4.choice(TEMPL)
            binfmt = r4.random() < 0.25
            params = []
            for q in range(1, m + 1):
                if q in pos:
                    c = r4.random()
                    k = r4.choice(sub)
                    if c < 0.55:
                        params.append(struct.pack(">q", k) if binfmt else str(k).encode())
                    elif c < 0.75:
                        params.append(None)
                    elif c < 0.9:
                        params.append(struct.pack(">q", k) if binfmt else b"notanumber")
                    else:
                        params.append(b"" if not binfmt else struct.pack(">q", k))
                else:
                    # non-key parameters are numeric on purpose: harmless unless they are mistaken for a key
                    v = r4.randint(-10**6, 10**6)
                    params.append(struct.pack(">q", v) if binfmt else str(v).encode())
            fm = [1] if binfmt else r4.choice([[], [0]])
            steps.append({"op": "route", "proto": "P", "sql": sql})
            steps.append({"op": "bind", "hex": bind_msg(params, fm)})
            plist = "[" + "; ".join("None" if x is None else "Some " + vlib.coq_bytes(x) for x in params) + "]"
            qexprs.append("(bind_keys [%s] [%s] %s)" % ("; ".join("%d%%nat" % x for x in pos), "; ".join("true" if f else "false" for f in fm), plist))
            pairs.append((sql, [None if x is None else x.hex() for x in params], fm))
        qcases.append({"settings": S2, "steps": steps})
        qmeta.append(pairs)
    qvals = vlib.coq_eval("c06s", "From PV Require Import Shard.Paths.\nFrom Coq Require Import ZArith NArith List. Import ListNotations.", qexprs)
    qres = RL.run_router(router, qcases)
    vi = 0
    for pairs, r in zip(qmeta, qres):
        cur = None
        for j, pr in enumerate(pairs):
            mk = vlib.parse_coq(qvals[vi]); vi += 1
            if len(mk) == 1:
                cur = pg_partition(mk[0], n)
            o = r["out"][2 * j + 1]
            got = "Panics" if ("panic" in o or "panic" in r["out"][2 * j]) else o["state"]["shard"]
            evals += 1
            if got != cur:
                run.violation("counterexample" if got == "Panics" else "tie-broken",
                              "sequence of Parse/Bind pairs on one connection: after pair %d the router's shard is %r, the keys bound so far give %r" % (j + 1, got, cur),
                              {"correspondence": "Shard/Paths.v bind_keys (per statement) vs QueryRouter::infer + infer_shard_from_bind", "input": {"pairs": pairs[: j + 1], "shards": n},
                               "model": cur, "impl": got}, found_input=(got == "Panics"))
                return evals
        distinct.add(("bind_seq", json.dumps(pairs)))
        run.cov["traces_validated_against_impl"] += 1
    samples.append({"kind": "bind_sequence", "pairs": qmeta[0]})

    # comment routing looks at the first regex_search_limit RAW bytes of the message (for Parse: name, text, parameter types):
    # bytes that are not valid UTF-8 there (LATIN1 text, a multi-byte character cut at the limit, type OIDs) must not hide the comment
    n = 5
    SC = {"shards": n, "func": "pg", "parser": True, "splitting": True, "auto_key": "data.id", "key_regex": r"/\* sharding_key: (\d+) \*/",
          "shard_regex": r"/\* shard_id: (\d+) \*/"}

    def rawq(b):
        return (b"Q" + struct.pack(">i", len(b) + 5) + b + b"\0").hex()

    def rawp(b, oids):
        body = b"\0" + b + b"\0" + struct.pack(">h", len(oids)) + b"".join(struct.pack(">i", x) for x in oids)
        return (b"P" + struct.pack(">i", len(body) + 4) + body).hex()
    ccases, cmeta = [], []
    for k in [x for x in sub if x >= 0][:12]:
        tails = [b"SELECT 1", b"SELECT 'caf\xe9'", b"SELECT '\xff\xfe'", "SELECT 'żółw'".encode(), b"SELECT '" + b"a" * 968 + "é".encode() + b"'",
                 b"SELECT '" + b"a" * 2000 + b"'", b"SELECT $1, $2"]
        for tail in tails:
            for kind, com, want in (("sharding_key", b"/* sharding_key: %d */ " % k, pg_partition(k, n)), ("shard_id", b"/* shard_id: %d */ " % (k % n), k % n)):
                ccases.append({"settings": SC, "steps": [{"op": "command", "raw": rawq(com + tail)}]}); cmeta.append((kind, "Q", com + tail, [], want))
                for oids in ([], [23], [1184, 23], [1700, 2950, 25]):
                    ccases.append({"settings": SC, "steps": [{"op": "command", "raw": rawp(com + tail, oids)}]}); cmeta.append((kind, "P", com + tail, oids, want))
    cres = RL.run_router(router, ccases)
    for (kind, proto, text, oids, want), r in zip(cmeta, cres):
        o = r["out"][-1]
        got = "Panics" if "panic" in o else o["state"]["shard"]
        evals += 1
        distinct.add(("comment_bytes", kind, proto, text[:60], len(text), tuple(oids)))
        run.cov["traces_validated_against_impl"] += 1
        if got != want:
            run.violation("counterexample", "a %s comment at the start of a %s message (%d bytes of text, parameter types %s) selects shard %r, expected %r: %r..." % (kind, proto, len(text), oids, got, want, text[:80]),
                          {"input": {"kind": kind, "proto": proto, "text_hex": text.hex(), "oids": oids, "shards": n}, "impl": got, "expected": want})
            return evals
    samples.append({"kind": "comment_bytes", "proto": cmeta[1][1], "text": cmeta[1][2][:60].decode("latin1"), "oids": cmeta[1][3]})

    # malformed / unusual spellings: the real text paths vs the Coq path model (Key k / NoKey / Panics)
    n = 5
    spell = spell_extra + [str(k).encode() for k in sub[:40]]
    # the spellings the theorems c06_leading_zeros / c06_plus_sign / c06_out_of_range_never_wraps speak about,
    # on boundary and sampled keys (k >= 0 for the digit-only captures; signed zero-padded forms for text Bind)
    for j, k in enumerate([0, 7, 2 ** 31, 2 ** 63 - 1] + [abs(x) for x in sub[40:52]]):
        z = b"0" * (1 + j % 5 + (18 if j % 4 == 3 else 0))
        spell += [z + str(k).encode(), b"+" + str(k).encode(), b"+" + z + str(k).encode(), b"-" + z + str(k).encode()]
    spell += [b"0" * 25, b"00009223372036854775808", b"18446744073709551616", b"18446744073709551621", b"-0", b"+0", b"-00"]
    spell = list(dict.fromkeys(spell))
    exprs, cases = [], []
    S = {"shards": n, "func": "pg", "parser": True, "splitting": True, "auto_key": "data.id", "key_regex": r"/\* sharding_key: (\d+) \*/"}
    for s in spell:
        lit = vlib.coq_bytes(s)
        exprs.append("(path_set_key %s, path_comment %s, path_bind_text %s)" % (lit, lit, lit))
        txt = s.decode("latin1")
        cases.append({"settings": S, "steps": [{"op": "command", "sql": "SET SHARDING KEY TO '%s'" % txt}]})
        cases.append({"settings": S, "steps": [{"op": "command", "sql": "/* sharding_key: %s */ SELECT 1" % txt}]})
        cases.append({"settings": S, "steps": [{"op": "route", "proto": "P", "sql": "SELECT * FROM data WHERE id = $1"},
                                               {"op": "bind", "hex": bind_msg([s], [])}]})
    vals = vlib.coq_eval("c06p", "From PV Require Import Shard.Paths.\nFrom Coq Require Import ZArith NArith List. Import ListNotations.", exprs)
    res = RL.run_router(router, cases)

    def obs(o):
        if "panic" in o:
            return "Panics"
        if o.get("cmd") and o["cmd"][0] == "InvalidShardingKey":
            return "Rejected" if o["state"]["shard"] is None else "Rejected-but-shard-changed"
        sh = o["state"]["shard"]
        return "NoKey" if sh is None else ("Key", sh)

    def want(m):
        return m if isinstance(m, str) else ("Key", pg_partition(m[1], n))
    for i, s in enumerate(spell):
        models = vlib.parse_coq(vals[i])
        outs = [obs(res[3 * i]["out"][-1]), obs(res[3 * i + 1]["out"][-1]), obs(res[3 * i + 2]["out"][-1])]
        for path, g, m in zip(("set_key", "comment", "bind_text"), outs, models):
            evals += 1
            distinct.add((path, "spelling", s))
            run.cov["traces_validated_against_impl"] += 1
            if g == "Panics":
                run.violation("counterexample", "spelling %r via %s panics the client task" % (s, path),
                              {"input": {"spelling": s.decode("latin1"), "path": path}, "impl": "panic", "model": str(want(m))})
                return evals
            if g != want(m):
                run.violation("tie-broken", "path model and implementation disagree on spelling %r via %s: model %s, impl %s" % (s, path, want(m), g),
                              {"correspondence": "Shard/Paths.v vs QueryRouter", "input": {"spelling": s.decode("latin1"), "path": path}, "model": str(want(m)), "impl": str(g)},
                              found_input=True)
                return evals
    samples.append({"kind": "spelling", "text": spell[2].decode(), "model": vals[2]})
    return evals


def check_wire(run, keys, quick, samples, distinct):
    """pgcat in-process with 3 shards (one mock backend each, plus a replica on shard 1): every
    tagged statement must be executed by a backend of the shard the model's sticky state selects."""
    ok, blog, bins = vlib.cargo_build(["wire"])
    if not ok:
        run.violation("tie-broken", "wire harness does not build against /repo", {"correspondence": "wire harness build", "log": blog[-3000:]}, found_input=False)
        return 0
    wire = bins["wire"]
    nsh = 3
    def mk_toml(default_shard, lb, akey="data.id"):
        opts = {"query_parser_enabled": True, "query_parser_read_write_splitting": True, "automatic_sharding_key": akey,
                "sharding_function": "pg_bigint_hash", "default_role": "any", "primary_reads_enabled": True, "load_balancing_mode": lb}
        if default_shard != "shard_0":
            opts["default_shard"] = default_shard
        return W.make_toml(pools={"db": {"opts": opts, "users": [{"pool_size": 2}],
                                         "shards": [{"servers": [["s0", "primary"]]}, {"servers": [["s1", "primary"], ["s1r", "replica"]]}, {"servers": [["s2", "primary"]]}]}})
    backends = [{"name": n} for n in ("s0", "s1", "s1r", "s2")]
    shard_of_backend = {"s0": 0, "s1": 1, "s1r": 1, "s2": 2}
    r = run.rng
    scns, metas = [], []
    for t in range(30 if quick else 400):
        # the selected shard must hold whatever the pool does for clients that selected nothing
        dsh = ["shard_0", "random", "random_healthy"][t % 3]
        toml = mk_toml(dsh, r.choice(["random", "loc"]), ["data.id", "Data.ID", '"data"."id"', '"DATA".Id'][(t // 3) % 4])
        steps = [{"op": "connect", "c": "c1", "params": {"user": "u", "database": "db"}, "password": "pw"}]
        cur = None          # model: sticky selection (Paths.set_shard / SET SHARDING KEY / literal)
        expect = []         # (tag, expected shard or None)
        for i in range(r.randint(3, 7)):
            k = r.random()
            tag = "t%d_%d" % (t, i)
            if k < 0.25:
                v = r.choice([0, 1, 2, 3, 7, 99999999999999999999999])
                steps += [{"op": "send", "c": "c1", "msgs": [{"t": "Q", "sql": "SET SHARD TO '%d'" % v}]}, {"op": "recv", "c": "c1", "label": "setshard:%d" % v}]
                if v < nsh:
                    cur = v
                expect.append(("setshard", v, cur))
            elif k < 0.45:
                key = r.choice(keys[:200])
                if key < 0:
                    key = -key
                key = min(key, 2**63 - 1)
                steps += [{"op": "send", "c": "c1", "msgs": [{"t": "Q", "sql": "SET SHARDING KEY TO '%d'" % key}]}, {"op": "recv", "c": "c1"}]
                cur = pg_partition(key, nsh)
                expect.append(("setkey", key, cur))
            elif k < 0.6:
                steps += [{"op": "send", "c": "c1", "msgs": [{"t": "Q", "sql": "SHOW SHARD"}]}, {"op": "recv", "c": "c1", "label": "show"}]
                expect.append(("show", None, cur))
            elif k < 0.8:
                key = r.choice(keys[:200])
                key = min(abs(key), 2**63 - 1)
                steps += [{"op": "send", "c": "c1", "msgs": [{"t": "Q", "sql": "SELECT * FROM data WHERE id = %d /*%s*/" % (key, tag)}]}, {"op": "recv", "c": "c1"}]
                cur = pg_partition(key, nsh)
                expect.append(("stmt", tag, cur))
            else:
                steps += [{"op": "send", "c": "c1", "msgs": [{"t": "Q", "sql": "SELECT 1 /*%s*/" % tag}]}, {"op": "recv", "c": "c1"}]
                expect.append(("stmt", tag, cur if cur is not None else (0 if dsh == "shard_0" else "any")))   # nothing selected: default_shard decides
        scns.append({"backends": backends, "toml": toml, "steps": steps})
        metas.append(expect)
    # a transient checkout failure (the selected shard's only connection is held by another client) must not change the selection
    def mk_toml_small(default_shard):
        opts = {"query_parser_enabled": True, "query_parser_read_write_splitting": True, "automatic_sharding_key": "data.id",
                "sharding_function": "pg_bigint_hash", "default_role": "any", "primary_reads_enabled": True}
        if default_shard != "shard_0":
            opts["default_shard"] = default_shard
        return W.make_toml(general={"connect_timeout": 300}, pools={"db": {"opts": opts, "users": [{"pool_size": 1}],
                           "shards": [{"servers": [["s0", "primary"]]}, {"servers": [["s1", "primary"], ["s1r", "replica"]]}, {"servers": [["s2", "primary"]]}]}})
    for t in range(6 if quick else 60):
        sel = r.choice([1, 2])
        how = r.choice(["shard", "key"])
        key = next(k for k in range(1, 200) if pg_partition(k, nsh) == sel)
        tag1, tag2 = "tx%d_1" % t, "tx%d_2" % t
        steps = [{"op": "connect", "c": "c1", "params": {"user": "u", "database": "db"}, "password": "pw"},
                 {"op": "connect", "c": "c2", "params": {"user": "u", "database": "db"}, "password": "pw"}]
        setsql = ("SET SHARD TO '%d'" % sel) if how == "shard" else ("SET SHARDING KEY TO '%d'" % key)
        for c in ("c1", "c2"):
            steps += [{"op": "send", "c": c, "msgs": [{"t": "Q", "sql": setsql}]}, {"op": "recv", "c": c}]
        # c2 takes the only primary connection of the selected shard
        steps += [{"op": "send", "c": "c2", "msgs": [{"t": "Q", "sql": "BEGIN"}]}, {"op": "recv", "c": "c2"},
                  {"op": "send", "c": "c2", "msgs": [{"t": "Q", "sql": "INSERT INTO t VALUES (1) /*hold*/"}]}, {"op": "recv", "c": "c2"}]
        # c1's write cannot get a connection: pool error after connect_timeout
        steps += [{"op": "send", "c": "c1", "msgs": [{"t": "Q", "sql": "INSERT INTO t VALUES (2) /*%s*/" % tag1}]}, {"op": "recv", "c": "c1", "timeout_ms": 3000, "label": "refused"}]
        steps += [{"op": "send", "c": "c2", "msgs": [{"t": "Q", "sql": "COMMIT"}]}, {"op": "recv", "c": "c2"}]
        steps += [{"op": "send", "c": "c1", "msgs": [{"t": "Q", "sql": "SHOW SHARD"}]}, {"op": "recv", "c": "c1", "label": "show"}]
        steps += [{"op": "send", "c": "c1", "msgs": [{"t": "Q", "sql": "INSERT INTO t VALUES (3) /*%s*/" % tag2}]}, {"op": "recv", "c": "c1"}]
        scns.append({"backends": backends, "toml": mk_toml_small(["shard_0", "random"][t % 2]), "steps": steps})
        metas.append([("after_refusal", (tag1, tag2), sel)])
    results = W.run_scenarios(wire, scns, timeout=60)
    n = 0
    for scn, expect, res in zip(scns, metas, results):
        if "harness_error" in res or "start_error" in res:
            run.broken.append("wire harness failed: %s" % (res.get("harness_error") or res.get("start_error")))
            continue
        where = {}
        for e in W.backend_msgs(res):
            sql = e["detail"].get("sql") or ""
            if "/*t" in sql:
                where[sql[sql.index("/*t") + 2:sql.index("*/", sql.index("/*t"))]] = e["who"]
            if sql.upper().startswith("SET SHARD") or sql.upper().startswith("SHOW SHARD"):
                run.violation("counterexample", "custom command forwarded to a server: %r" % sql, {"input": scn["steps"], "backend": e["who"]})
        recvs = [e for e in res["events"] if e.get("ev") == "recv" and e.get("who") == "c1"]
        ri = 0
        if expect and expect[0][0] == "after_refusal":
            (tag1, tag2), want = expect[0][1], expect[0][2]
            n += 1
            distinct.add(("wire", "after_refusal", want, scn["toml"].count("random")))
            refused = [e for e in recvs if e.get("label") == "refused"]
            was_refused = bool(refused) and any(f.get("t") == "E" for f in refused[0]["frames"]) and tag1 not in where
            run.cov["wire_refused_checkout_scenarios"] = run.cov.get("wire_refused_checkout_scenarios", 0) + (1 if was_refused else 0)
            if was_refused:        # only then is the situation the one we want to judge
                show = [e for e in recvs if e.get("label") == "show"]
                rows = [f["cols"][0] for f in (show[0]["frames"] if show else []) if f.get("t") == "D"]
                got = where.get(tag2)
                if rows != [str(want)] or got is None or shard_of_backend[got] != want:
                    run.violation("counterexample", "after a refused checkout (pool exhausted) the selected shard %d is lost: SHOW SHARD %r, next statement on %r" % (want, rows, got),
                                  {"input": {"steps": scn["steps"]}, "expected_shard": want, "show": rows, "impl_backend": got})
                    return n
            continue
        for kind, arg, want in expect:
            n += 1
            distinct.add(("wire", kind, str(arg), want))
            fr = recvs[ri]["frames"] if ri < len(recvs) else []
            ri += 1
            if kind == "stmt":
                got = where.get(arg)
                if got is None or (want != "any" and shard_of_backend[got] != want):
                    run.violation("counterexample", "statement %s executed on backend %r (shard %s), selected shard is %s" % (arg, got, shard_of_backend.get(got), want),
                                  {"input": {"steps": scn["steps"]}, "expected_shard": want, "impl_backend": got})
                    return n
            elif kind == "setshard":
                is_err = any(f.get("t") == "E" for f in fr)
                if (arg >= nsh) != is_err:
                    run.violation("counterexample", "SET SHARD TO %d on %d shards: error reply=%s" % (arg, nsh, is_err), {"input": {"steps": scn["steps"]}, "frames": fr})
                    return n
            elif kind == "show":
                rows = [f["cols"][0] for f in fr if f.get("t") == "D"]
                wanted = "unset" if want is None else str(want)
                if rows != [wanted]:
                    run.violation("counterexample", "SHOW SHARD reports %r, the selection is %s" % (rows, wanted), {"input": {"steps": scn["steps"]}, "frames": fr})
                    return n
    samples.append({"kind": "wire", "steps": [s for s in scns[0]["steps"] if s["op"] == "send"][:5]})
    return n


def replay(run, path):
    r = json.load(open(path))
    ok, blog, bins = vlib.cargo_build(["router"])
    inp = r.get("input", {})
    print(json.dumps(r, indent=1)[:3000])
    if "key" in inp and "shards" in inp and "path" not in inp:
        f = "sha1" if inp.get("function") == "sha1" else "pg"
        got = real_shards(bins["router"], f, inp["shards"], [inp["key"]])[0]
        want = (sha1_rule if f == "sha1" else pg_partition)(inp["key"], inp["shards"])
        print("replay: impl=%r expected=%r" % (got, want))
        return 0 if got == want else 1
    return 0
