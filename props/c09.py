"""C09 — no access without valid credentials.

P: coq/Auth/{Model,Spec,Proofs,Props}.v: Client::startup / get_startup / client_entrypoint as an executable
   model over an arbitrary digest function, PostgreSQL's MD5 answer written independently, soundness of
   admission, no AuthenticationOk before the decision, rejection of every wrong answer, shutdown gate, no
   client bytes towards servers before admission.
T2: the real client_entrypoint over TCP (harness bin `wire`: pgcat in-process, pools built by from_config over
   mock backends, scripted clients) against the model evaluated in coqc (coq/Auth/Driver.v threads
   pool.auth_hash / pool.validated through a sequence of connections; coq/Auth/Md5.v is the digest instance),
   with the salt the implementation issued; plus model-free monitors (hashlib oracle, backend traffic
   attribution) and md5_hash_password vectors against hashlib.
"""
import hashlib, json, os, struct, sys
import vlib
from props import wirelib as W

COQ_FILES = ["Auth/Model.v", "Auth/Spec.v", "Auth/Md5.v", "Auth/Driver.v", "Auth/Proofs.v", "Auth/Props.v"]
AQ_USER, AQ_PW = "aq_reader", "aq-secret"
AQ_SQL = "SELECT usename, passwd FROM pg_shadow WHERE usename='$1'"
ADMIN_DBS = ["pgcat", "pgbouncer"]
ALL_CLASSES = ["Admitted", "AdminAdmitted", "TaskPanic", "CancelRequest", "WBadStartup", "WProtocolSync", "WShuttingDown",
               "WSocket0", "WSocket1", "WSocket2", "WExpectedP", "WInvalidPassword", "WNoPool", "WPassthrough",
               "WRefetchFailed", "WPoolDown", "WTls"]   # WMissingUser is dead code, WAuthImpossible needs a config that validate() rejects


# ------------------------------------------------------------------ independent oracle (hashlib)
def md5hex(b):
    return hashlib.md5(b).hexdigest().encode()


def shadow_of(user, pw):
    """what pg_shadow.passwd holds"""
    return "md5" + hashlib.md5(pw.encode() + user.encode()).hexdigest()


def answer_from_shadow(h, salt):
    """h: the 32 hex chars after 'md5' (bytes)"""
    return b"md5" + md5hex(h + salt) + b"\0"


def answer(user, pw, salt):
    return answer_from_shadow(md5hex(pw.encode() + user.encode()), salt)




# ------------------------------------------------------------------ configuration generator
USERS = ["alice", "bob", "carol", "dave", "eve", "mallory", "pgcat", "admin", "Zoë", "a b", "x", "Zo\ufffd"]   # the last: what a non-UTF-8 name decodes to
PWS = ["apw", "secret", "hunter2", "p w", "", "pa$$wörd", "0", "md5abc", "correct horse battery staple", "adminpw"]
DBS = ["db1", "app", "shop", "alice", "Düb", "postgres"]


def gen_config(rng, want_aq=None, want_down=False):
    cfg = {"admin_user": rng.choice(["admin", "root", "alice", "pgcat"]), "admin_pw": rng.choice(["adminpw", "apw", "s3cr3t", ""]),
           "admin_auth": "trust" if rng.random() < 0.12 else "md5", "pools": [], "general_aq": False}
    if want_aq is None:
        want_aq = rng.random() < 0.45
    cfg["general_aq"] = want_aq and rng.random() < 0.25
    names = rng.sample(DBS, rng.randint(1, 3))
    for i, n in enumerate(names):
        aq = cfg["general_aq"] or (want_aq and (i == 0 or rng.random() < 0.4))
        users = []
        for uname in rng.sample(USERS, rng.randint(1, 3)):
            if aq and "'" in uname:
                continue
            pw = rng.choice(PWS)
            if aq and rng.random() < 0.6:
                pw = None
            users.append({"name": uname, "pw": pw, "auth": "trust" if rng.random() < 0.15 else "md5"})
        if users and rng.random() < 0.2:                       # a second entry with the same name: the last one is served
            u = dict(rng.choice(users))
            u["pw"] = rng.choice(PWS)
            u["auth"] = "md5"
            users.append(u)
        down = want_down and i == len(names) - 1
        cfg["pools"].append({"name": n, "users": users, "aq": aq, "backend": "bdown" if down else "b0", "sdb": "s_" + str(i)})
    return cfg


def cfg_toml(cfg):
    g = {"admin_username": cfg["admin_user"], "admin_password": cfg["admin_pw"], "admin_auth_type": cfg["admin_auth"],
         "connect_timeout": 250, "shutdown_timeout": 6000}
    if cfg["general_aq"]:
        g.update({"auth_query": AQ_SQL, "auth_query_user": AQ_USER, "auth_query_password": AQ_PW})
    pools = {}
    for p in cfg["pools"]:
        opts = {}
        if p["aq"] and not cfg["general_aq"]:
            opts = {"auth_query": AQ_SQL, "auth_query_user": AQ_USER, "auth_query_password": AQ_PW}
        users = []
        for u in p["users"]:
            d = {"username": u["name"], "pool_size": 2, "auth_type": u["auth"], "password": u["pw"]}
            users.append(d)
        pools[p["name"]] = {"opts": opts, "users": users, "shards": [{"database": p["sdb"], "servers": [[p["backend"], "primary"]]}]}
    t = W.make_toml(general=g, pools=pools)
    for p in cfg["pools"]:                       # a TOML bare key is ASCII [A-Za-z0-9_-] only
        if not all(c.isascii() and (c.isalnum() or c in "_-") for c in p["name"]):
            t = t.replace("[pools.%s]" % p["name"], "[pools.%s]" % json.dumps(p["name"], ensure_ascii=False)).replace("[pools.%s." % p["name"], "[pools.%s." % json.dumps(p["name"], ensure_ascii=False))
    # make_toml writes None as `null`: a user without a cleartext password has no such key
    return "\n".join(l for l in t.splitlines() if not l.endswith("= null")) + "\n"


def served(cfg, db, name):
    for p in cfg["pools"]:
        if p["name"] == db:
            us = [u for u in p["users"] if u["name"] == name]
            return (p, us[-1]) if us else None
    return None


def mock_fetch(shadow, name, backend_up):
    """what AuthPassthrough::fetch_hash returns for pool user `name` given the mock's table (None = error)"""
    if not backend_up:
        return None
    sql = AQ_SQL.replace("$1", name)
    for u in sorted(shadow):
        if ("'%s'" % u) in sql:
            v = shadow[u]
            uname, h = v.split("\t", 1) if "\t" in v else (u, v)
            if uname == name and h.startswith("md5"):
                return h[3:]
            return None
    return None


# ------------------------------------------------------------------ packets
def startup_pkt(params, final_nul=True, code=196608, len_override=None):
    body = struct.pack(">i", code)
    for k, v in params:
        body += k + b"\0" + v + b"\0"
    if final_nul:
        body += b"\0"
    ln = len(body) + 4 if len_override is None else len_override
    return struct.pack(">i", ln) + body


def qmsg(sql):
    b = sql.encode() + b"\0"
    return b"Q" + struct.pack(">i", len(b) + 4) + b


# ------------------------------------------------------------------ client generator
def gen_client(rng, cfg, cname, shadow_pw, force=None, pair=None):
    """-> dict(step=connect step fields, kind=..., intent=...)  shadow_pw: user -> server-side password
    force: a kind or (kind, sub-kind) to generate instead of a random one; pair: the (database, user) to aim at"""
    marker = "c09:%s;" % cname
    app = (b"application_name", marker.encode())
    pairs = [(p["name"], u["name"]) for p in cfg["pools"] for u in p["users"]]
    kind = rng.choices(["good", "wrongpw", "unknown", "admin", "edit", "replay", "othermsg", "badstartup", "weirdstartup", "serverpw"],
                       [22, 12, 8, 12, 16, 5, 8, 8, 6, 6])[0]
    sub = None
    if force is not None:
        kind, sub = (force, None) if isinstance(force, str) else force

    def pick(options):
        return sub if sub in options else rng.choice(options)
    db, user = pair if pair else (rng.choice(pairs) if pairs else ("db1", "alice"))
    sv = served(cfg, db, user)
    pw = (sv[1]["pw"] if sv and sv[1]["pw"] is not None else shadow_pw.get(user, "nopw")) if sv else "x"
    st = {"op": "connect", "c": cname, "params": {}, "timeout_ms": 250}
    auth_user = user
    sparams = [(b"user", user.encode()), (b"database", db.encode()), app]       # UTF-8, as every real client sends them
    raw = None
    desc = kind
    nopost = False
    if kind == "good":
        pass
    elif kind == "serverpw":                     # the password the server holds (auth_query pools accept it)
        pw = shadow_pw.get(user, "nopw")
    elif kind == "wrongpw":
        pw = rng.choice([p for p in PWS + [cfg["admin_pw"], pw + "x", pw[:-1]] if p != pw] or ["zz"])
        if rng.random() < 0.2:                   # right password, hashed for another user name
            pw = sv[1]["pw"] if sv and sv[1]["pw"] is not None else pw
            auth_user = rng.choice(USERS)
    elif kind == "unknown":
        c = rng.random()
        if c < 0.4:
            user = rng.choice(["nobody", "Alice", "alice ", "", "postgres"])
        elif c < 0.7:
            db = rng.choice(["nodb", "DB1", "db1 ", "template1"])
        else:                                     # a configured user on another pool's database
            db = rng.choice(DBS)
        auth_user = user
        sparams = [(b"user", user.encode()), (b"database", db.encode()), app]
        if user == "":
            sparams = [(b"user", b""), (b"database", db.encode()), app]
    elif kind == "admin":
        db = rng.choice(ADMIN_DBS)
        c = {"good": 0.1, "anyuser": 0.55, "user_creds": 0.7, "wrong": 0.9}.get(sub, rng.random())
        user = cfg["admin_user"] if c < 0.5 else rng.choice(USERS)
        if c < 0.45:
            auth_user, pw = cfg["admin_user"], cfg["admin_pw"]
        elif c < 0.6:                             # any user name, the admin hash
            auth_user, pw = cfg["admin_user"], cfg["admin_pw"]
        elif c < 0.8:                             # a pool user's own credentials against the admin database
            auth_user = user
        else:
            auth_user, pw = cfg["admin_user"], rng.choice(PWS)
        sparams = [(b"user", user.encode()), (b"database", db.encode()), app]
        if sub is None and rng.random() < 0.15:   # database omitted, user = pgcat: pool_name defaults to the user
            user = "pgcat"
            sparams = [(b"user", b"pgcat"), app]
    elif kind == "edit":
        e = pick(["trunc", "trunc0", "append", "xor", "len_small", "len_neg", "len_min", "len_plus", "len_minus", "len_huge", "tag", "partial", "after", "silent", "halflen"])
        desc = "edit:" + e
        if e == "trunc":
            st["resp_edit"] = {"trunc": rng.randint(1, 35)}
        elif e == "trunc0":
            st["resp_edit"] = {"trunc": 0}
        elif e == "append":
            st["resp_edit"] = {"append": rng.choice(["00", "0000", "41", marker.encode().hex()])}
        elif e == "xor":
            st["resp_edit"] = {"xor_at": rng.randint(0, 35)}
        elif e == "len_small":
            st["resp_edit"] = {"declared_len": rng.randint(0, 3)}
        elif e == "len_neg":
            st["resp_edit"] = {"declared_len": -rng.choice([1, 2, 36, 40, 65536, 2**31 - 1])}
        elif e == "len_min":
            st["resp_edit"] = {"declared_len": -2**31 + rng.randint(0, 3)}
        elif e == "len_plus":
            st["resp_edit"] = {"declared_len": 40 + rng.choice([1, 5, 26, 100])}
        elif e == "len_minus":
            st["resp_edit"] = {"declared_len": 40 - rng.choice([1, 2, 35, 36])}
        elif e == "len_huge":
            st["resp_edit"] = {"declared_len": rng.choice([1 << 20, 4 << 20])}
        elif e == "tag":
            st["resp_edit"] = {"tag": rng.choice(["P", "q", "Q", "X", "R", "o", "\x00"])}
        elif e == "partial":
            st["resp_edit"] = {"partial": rng.choice([0, 1, 3, 5, 20, 40])}
        elif e == "after":
            st["resp_edit"] = {"after": qmsg("SELECT 3 /*%s*/" % marker).hex()}
        elif e == "silent":                       # nothing at all in place of the PasswordMessage, then EOF
            st["resp_edit"] = {"partial": 0}
            nopost = True
        elif e == "halflen":                      # the tag and half of the length, then EOF
            st["resp_edit"] = {"partial": rng.randint(1, 4)}
            nopost = True
    elif kind == "replay":
        st["salt_override"] = rng.choice(["00000000", "01020304", "ffffffff", "%08x" % rng.getrandbits(32)])
    elif kind == "othermsg":
        m = pick(["Q", "X", "P", "clear", "empty", "garbage", "S", "md5_nonul", "startup_again"])
        desc = "othermsg:" + m
        tagged = "SELECT 2 /*%s*/" % marker
        if m == "Q":
            st["password_raw"] = {"t": "Q", "sql": tagged}
        elif m == "X":
            st["password_raw"] = {"t": "X"}
        elif m == "P":
            st["password_raw"] = {"t": "P", "name": "", "sql": tagged, "types": []}
        elif m == "clear":
            st["password_raw"] = {"t": "p", "data": pw}
        elif m == "empty":
            st["password_raw"] = {"t": "p", "data": "", "nul": False}
        elif m == "garbage":
            st["password_raw"] = {"raw": bytes(rng.getrandbits(8) for _ in range(rng.randint(1, 12))).hex() + marker.encode().hex()}
        elif m == "S":
            st["password_raw"] = {"t": "S"}
        elif m == "md5_nonul":
            st["password_raw"] = {"t": "p", "data": shadow_of(user, pw), "nul": False}
        elif m == "startup_again":
            st["password_raw"] = {"raw": startup_pkt(sparams).hex()}
    elif kind == "badstartup":
        b = pick(["len0", "len1_3", "len4", "len5_7", "neg", "min", "huge", "code", "cancel", "short", "ssl", "ssl_admin", "ssl_then_bad", "ssl_twice"])
        desc = "badstartup:" + b
        good = startup_pkt(sparams)
        if b == "len0":
            raw = struct.pack(">i", 0) + good[4:]
        elif b == "len1_3":
            raw = struct.pack(">i", rng.randint(1, 3)) + good[4:]
        elif b == "len4":
            raw = struct.pack(">i", 4)
        elif b == "len5_7":
            n = rng.randint(5, 7)
            raw = struct.pack(">i", n) + good[4:n]
        elif b == "neg":
            raw = struct.pack(">i", -rng.choice([1, 4, 8, 100, 2**31 - 1])) + good[4:]
        elif b == "min":
            raw = struct.pack(">i", -2**31) + good[4:]
        elif b == "huge":
            raw = struct.pack(">i", rng.choice([1 << 20, 4 << 20])) + good[4:]
        elif b == "code":
            raw = startup_pkt(sparams, code=rng.choice([0, 1, 196609, 196607, 80877104, 131072, -1]))
        elif b == "cancel":
            raw = struct.pack(">iiii", 16, 80877102, rng.getrandbits(31), rng.getrandbits(31))
        elif b == "short":                        # a prefix of the packet, then EOF (later bytes would complete it)
            raw = good[:rng.randint(1, len(good) - 1)]
            nopost = True
        elif b == "ssl":
            raw = struct.pack(">ii", 8, 80877103) + good
            st["ssl_byte"] = True
        elif b == "ssl_admin":                    # SSLRequest, then the admin database with the admin credentials
            user, auth_user, pw = cfg["admin_user"], cfg["admin_user"], cfg["admin_pw"]
            raw = struct.pack(">ii", 8, 80877103) + startup_pkt([(b"user", user.encode()), (b"database", rng.choice(ADMIN_DBS).encode()), app])
            st["ssl_byte"] = True
        elif b == "ssl_then_bad":
            raw = struct.pack(">ii", 8, 80877103) + rng.choice([struct.pack(">ii", 8, 80877103), struct.pack(">iiii", 16, 80877102, 1, 2),
                                                                 struct.pack(">i", 2), startup_pkt(sparams, code=7)])
            st["ssl_byte"] = True
        elif b == "ssl_twice":
            raw = struct.pack(">ii", 8, 80877103) + struct.pack(">i", 0)
            st["ssl_byte"] = True
    elif kind == "weirdstartup":
        w = pick(["nouser", "odd", "unterminated", "nofinalnul", "dup", "dbdefault", "empty", "empty2", "shift", "latin1", "emptyval", "order",
                        "latin1name", "latin1name", "badutf8name", "emptyname_mid", "name_no_value", "name_unterminated", "emptydb", "emptyuser"])
        desc = "weirdstartup:" + w
        ub, dbb = sparams[0][1], sparams[1][1]
        if w == "nouser":
            raw = startup_pkt([(b"database", dbb), app])
        elif w == "odd":
            raw = startup_pkt([(b"user", ub), (b"database", b""), app])
        elif w == "unterminated":
            raw = startup_pkt([(b"user", ub), (b"database", dbb)], final_nul=False)[:-1]
            raw = struct.pack(">i", len(raw)) + raw[4:]
        elif w == "nofinalnul":
            raw = startup_pkt([(b"user", ub), (b"database", dbb), app], final_nul=False)
        elif w == "dup":
            other = rng.choice(USERS).encode()
            raw = startup_pkt([(b"user", other), (b"database", dbb), app, (b"user", ub)])
        elif w == "dbdefault":
            raw = startup_pkt([(b"user", ub), app])
        elif w == "empty":
            raw = startup_pkt([])
        elif w == "empty2":
            raw = startup_pkt([], final_nul=False)
        elif w == "shift":
            raw = struct.pack(">i", 0)  # placeholder, rebuilt below
            body = struct.pack(">i", 196608) + b"x\0\0y\0user\0" + ub + b"\0\0"
            raw = struct.pack(">i", len(body) + 4) + body
        elif w == "latin1":
            raw = startup_pkt([(b"user", ub), (b"database", dbb), app, (b"extra", bytes([0xe9, 0xff, 0x80]))])
        elif w == "emptyval":
            raw = startup_pkt([(b"user", ub), (b"database", dbb), (b"options", b""), app])
        elif w == "order":
            raw = startup_pkt([app, (b"database", dbb), (b"user", ub)])
        elif w == "latin1name":                   # the name in Latin-1 bytes: not UTF-8, decoded lossily (U+FFFD)
            fffd = [(d_, u_) for d_, u_ in pairs if "\ufffd" in u_]
            if fffd:
                db, user = rng.choice(fffd)
                sv = served(cfg, db, user)
                pw = sv[1]["pw"] if sv[1]["pw"] is not None else shadow_pw.get(user, "nopw")
                auth_user, dbb = user, db.encode()
            if "\ufffd" in user:                 # an invalid byte where the configured name has U+FFFD: the same user after decoding
                nb = b"\xeb".join(x.encode() for x in user.split("\ufffd"))
            else:
                nb = user.encode("latin1", "replace") + (b"" if any(ord(c) > 127 for c in user) else b"\xe9")
            raw = startup_pkt([(b"user", nb), (b"database", dbb), app])
        elif w == "badutf8name":                  # truncated / overlong / surrogate sequences inside the name
            raw = startup_pkt([(b"user", ub + rng.choice([b"\xc3", b"\xe2\x82", b"\xc0\xaf", b"\xed\xa0\x80", b"\xf4\x90\x80\x80", b"\xff"])), (b"database", dbb), app])
        elif w == "emptyname_mid":                # an empty name ends the list: database and the tag are not read
            body = struct.pack(">i", 196608) + b"user\0" + ub + b"\0\0database\0" + dbb + b"\0" + app[0] + b"\0" + app[1] + b"\0\0"
            raw = struct.pack(">i", len(body) + 4) + body
        elif w == "name_no_value":                # the bytes end after a name
            body = struct.pack(">i", 196608) + b"user\0" + ub + b"\0database\0"
            raw = struct.pack(">i", len(body) + 4) + body
        elif w == "name_unterminated":            # the bytes end inside a name
            body = struct.pack(">i", 196608) + b"user\0" + ub + b"\0datab"
            raw = struct.pack(">i", len(body) + 4) + body
        elif w == "emptydb":
            raw = startup_pkt([(b"user", ub), (b"database", b""), app])
        elif w == "emptyuser":
            raw = startup_pkt([(b"user", b""), (b"database", dbb), app])
    if raw is None:
        raw = startup_pkt(sparams)
    # pgcat legitimately keeps waiting for bytes in these cases: do not wait long for an answer that cannot come.
    # Everywhere else the client waits generously (a loaded machine must not look like a silent pgcat); the
    # comparison itself is timing-independent (the model gets exactly the bytes that were sent, in order).
    blocking = desc in ("edit:len_plus", "edit:len_huge", "edit:partial", "edit:silent", "edit:halflen", "badstartup:huge", "badstartup:short", "edit:len_min")
    st["timeout_ms"] = 1000 if blocking else 3000          # > connect_timeout (250 ms): pgcat's own pool validation must be able to finish
    st["raw_startup"] = raw.hex()
    st["auth_user"] = auth_user
    st["password"] = pw
    return {"step": st, "kind": desc, "marker": marker, "raw": raw, "nopost": nopost}


# ------------------------------------------------------------------ scenario construction
SSLREQ = struct.pack(">ii", 8, 80877103)


def build_scenario(rng, idx, quick, tls=False):
    flavour = rng.choices(["plain", "shutdown", "aqchange", "down"], [55, 15, 20, 10])[0]
    if idx % 4 == 0:              # admin_only (shutdown in progress) is a dimension of every path: a fixed share of the scenarios
        flavour = "shutdown"
    cfg = gen_config(rng, want_aq=True if flavour in ("aqchange", "shutdown") else None, want_down=(flavour == "down"))
    if flavour == "shutdown":     # every kind of login must meet admin_only: a cleartext md5 user, a trust user, an auth_query-only user
        p0 = cfg["pools"][0]
        free = [u for u in ("alice", "bob", "carol", "dave", "eve", "frank", "grace", "heidi") if u not in {x["name"] for x in p0["users"]}]
        p0["aq"] = True
        p0["users"] += [{"name": free[0], "pw": "clearpw", "auth": "md5"}, {"name": free[1], "pw": "tpw", "auth": "trust"}, {"name": free[2], "pw": None, "auth": "md5"}]
    allusers = sorted({u["name"] for p in cfg["pools"] for u in p["users"]})
    # server-side passwords: mostly the configured cleartext one, sometimes another, sometimes no row / a foreign format
    shadow_pw, shadow = {}, {}
    for un in allusers:
        cands = [u["pw"] for p in cfg["pools"] for u in p["users"] if u["name"] == un and u["pw"] is not None]
        pw = rng.choice(cands) if cands and rng.random() < 0.5 else rng.choice(PWS)
        shadow_pw[un] = pw
        c = rng.random()
        if c < 0.75:
            shadow[un] = shadow_of(un, pw)
        elif c < 0.85:
            shadow[un] = "SCRAM-SHA-256$4096:abc$def:ghi"
        elif c < 0.92:
            shadow[un] = "somebody_else\t" + shadow_of(un, pw)
        # else: no row
    steps, meta = [{"op": "wait_tasks", "n": 0, "label": "pooler-started"}], []      # a front-side event after from_config's own auth_query fetches
    finished = [0]
    state = {"sd": False, "shadow": dict(shadow), "shadow_pw": dict(shadow_pw)}

    def add_client(i, force=None, pair=None):
        cname = "s%dc%d" % (idx, i)
        cl = gen_client(rng, cfg, cname, state["shadow_pw"], force=force, pair=pair)
        cl["name"] = cname
        cl["tls_ok"] = True
        if tls:
            cl["step"].pop("ssl_byte", None)
            if rng.random() < 0.08:               # 'S' received, then the startup packet in clear instead of a ClientHello
                cl["step"]["no_handshake"] = True
                cl["tls_ok"] = False
                cl["kind"] = "tls:nohandshake"
        cl["sd"] = state["sd"]
        cl["shadow"] = dict(state["shadow"])
        post = qmsg("SELECT 1 /*%s*/" % cl["marker"])
        cl["post"] = post
        steps.append(cl["step"])
        if not cl.get("nopost"):
            steps.append({"op": "send", "c": cname, "msgs": [{"raw": post.hex()}]})
        steps.append({"op": "recv", "c": cname, "until": "Z", "count": 1, "timeout_ms": 1000})       # drain what is still to come
        steps.append({"op": "close", "c": cname})
        finished[0] += 1
        steps.append({"op": "wait_tasks", "n": finished[0], "label": cname, "timeout_ms": 8000})
        cl["task_index"] = finished[0] - 1
        meta.append(cl)

    n = rng.randint(7, 10)
    if flavour == "shutdown":
        good = [(p, u) for p in cfg["pools"] for u in p["users"] if served(cfg, p["name"], u["name"])[1] is u and u["pw"] is not None
                and all(ord(c) < 128 for c in p["name"] + u["name"]) and p["backend"] == "b0"]
        if not good:
            flavour = "plain"
    for i in range(n):
        if flavour == "shutdown" and i == n // 2:
            p, u = rng.choice(good)
            for role in ("holder", "canary"):
                cname = "s%d%s" % (idx, role)
                marker = "c09:%s;" % cname
                raw = startup_pkt([(b"user", u["name"].encode()), (b"database", p["name"].encode()), (b"application_name", marker.encode())])
                st = {"op": "connect", "c": cname, "params": {}, "timeout_ms": 2000, "raw_startup": raw.hex(), "auth_user": u["name"], "password": u["pw"]}
                steps.append(st)
                cl = {"step": st, "kind": role, "marker": marker, "raw": raw, "name": cname, "sd": False, "shadow": dict(state["shadow"]), "post": b"", "task_index": None, "special": role}
                if role == "holder":
                    cl["post"] = qmsg("BEGIN /*%s*/" % marker)
                    steps.append({"op": "send", "c": cname, "msgs": [{"raw": cl["post"].hex()}]})
                    steps.append({"op": "recv", "c": cname, "until": "Z", "count": 1, "timeout_ms": 2000, "label": "holder_begin"})
                meta.append(cl)
            steps.append({"op": "control", "sig": "int"})
            # the idle canary is told to go away by the same select arm that set admin_only
            steps.append({"op": "recv", "c": "s%dcanary" % idx, "until": "E", "count": 1, "timeout_ms": 4000, "label": "canary_kick"})
            finished[0] += 1
            steps.append({"op": "wait_tasks", "n": finished[0], "label": "canary", "timeout_ms": 4000})
            state["sd"] = True
            # admin_only x every handshake kind: each served (database, user) with its right password (md5 / trust /
            # auth_query-only users alike), the admin database with right and wrong credentials, the plain path after a
            # declined SSLRequest (when TLS is not configured), an unknown user; then the random clients continue
            k = 0
            for pp in cfg["pools"]:
                for uu in {u["name"] for u in pp["users"]}:
                    add_client(100 + k, force=rng.choice(["good", "good", "serverpw"]), pair=(pp["name"], uu))
                    k += 1
            for f in [("admin", "good"), ("admin", "wrong"), ("admin", "anyuser"), "unknown", ("badstartup", "ssl"), ("badstartup", "ssl_admin"), ("weirdstartup", "dbdefault"), ("edit", "after"), ("othermsg", "Q")]:
                add_client(100 + k, force=f)
                k += 1
        if flavour == "aqchange" and i in (n // 3, 2 * n // 3):
            # passwords change on the server
            for un in allusers:
                if rng.random() < 0.6:
                    npw = rng.choice(PWS)
                    state["shadow_pw"][un] = npw
                    state["shadow"][un] = shadow_of(un, npw)
                elif rng.random() < 0.15:
                    state["shadow"].pop(un, None)
            steps.append({"op": "backend", "b": "b0", "shadow": dict(state["shadow"])})
        add_client(i)
    backends = [{"name": "b0", "shadow": shadow}]
    # an unreachable server: nothing listens on 127.0.0.1:1 (a mock in mode "down" keeps accepting for a few ms after start)
    toml = cfg_toml(cfg).replace("@PORT:bdown@", "1")
    if tls:
        cert = os.path.join(vlib.REPO, ".circleci", "server.cert")
        key = os.path.join(vlib.REPO, ".circleci", "server.key")
        toml = toml.replace("[general]\n", "[general]\ntls_certificate = %s\ntls_private_key = %s\n" % (json.dumps(cert), json.dumps(key)), 1)
    scn = {"backends": backends, "toml": toml, "hex": True, "steps": steps}
    return {"scn": scn, "cfg": cfg, "meta": meta, "flavour": flavour, "shadow0": shadow, "idx": idx, "tls": tls}


# ------------------------------------------------------------------ Coq terms
def cb(b):
    return vlib.coq_bytes(b) if b else "([] : list N)"


def cs(s):
    return cb(s.encode())


def copt(b):
    return "None" if b is None else "(Some %s)" % cb(b)


def coq_cfg(cfg, tls=False):
    ps = []
    for p in cfg["pools"]:
        us = ["{| u_name := %s; u_password := %s; u_auth := %s |}" % (cs(u["name"]), copt(None if u["pw"] is None else u["pw"].encode()), "Trust" if u["auth"] == "trust" else "MD5")
              for u in p["users"]]
        ps.append("{| p_name := %s; p_users := [%s]; p_aq := %s |}" % (cs(p["name"]), "; ".join(us), "true" if p["aq"] else "false"))
    return "{| admin_user := %s; admin_password := %s; admin_auth := %s; pools := [%s]; tls := %s |}" % (
        cs(cfg["admin_user"]), cs(cfg["admin_pw"]), "Trust" if cfg["admin_auth"] == "trust" else "MD5", "; ".join(ps), "true" if tls else "false")


def fetch_table(cfg, shadow):
    out = []
    for p in cfg["pools"]:
        if not p["aq"]:
            continue
        for u in p["users"]:
            h = mock_fetch(shadow, u["name"], p["backend"] == "b0")
            out.append("(%s, %s, %s)" % (cs(p["name"]), cs(u["name"]), copt(None if h is None else h.encode())))
    return "[" + "; ".join(out) + "]"


def coq_session(sc, inputs):
    cfg = sc["cfg"]
    ups = "[" + "; ".join("(%s, %s)" % (cs(p["name"]), "true" if p["backend"] == "b0" else "false") for p in cfg["pools"]) + "]"
    cis = []
    for (sd, salt, stream, shadow, tls_ok) in inputs:
        cis.append("{| ci_sd := %s; ci_salt := %s; ci_stream := %s; ci_fetch := %s; ci_up := %s; ci_tls_ok := %s |}" % (
            "true" if sd else "false", cb(salt), cb(stream), fetch_table(cfg, shadow), ups, "true" if tls_ok else "false"))
    st0 = "{| caches := %s; valid := [] |}" % fetch_table(cfg, sc["shadow0"])
    return "session %s %s [%s]" % (coq_cfg(cfg, sc.get("tls", False)), st0, "; ".join(cis))


PREAMBLE = "From Coq Require Import ZArith NArith List Bool.\nFrom PV Require Import Auth.Model Auth.Md5 Auth.Driver.\nImport ListNotations.\nOpen Scope N_scope."


# ------------------------------------------------------------------ observation
def bts(v):
    return bytes(v) if isinstance(v, list) else b""


def norm(v):
    """vlib.parse_coq leaves bare constructor ARGUMENTS as ('#', name)"""
    if isinstance(v, tuple):
        if len(v) == 2 and v[0] == "#":
            return v[1]
        return tuple(norm(x) for x in v)
    if isinstance(v, list):
        return [norm(x) for x in v]
    return v


def model_class(out):
    if isinstance(out, str):
        return out
    if out[0] == "PoolAdmitted":          # (the constructor cannot be called Admitted: the hygiene grep forbids the word)
        return "Admitted"
    if out[0] == "Rejected":
        w = out[1]
        if isinstance(w, tuple):
            return w[0] + (str(w[1]) if w[0] == "WSocket" else "")
        return w
    return str(out)


def model_frames(replies):
    fr = []
    for r in replies:
        if isinstance(r, tuple):
            if r[0] == "RMd5Request":
                fr.append("md5:" + bts(r[1]).hex())
            elif r[0] == "RError":
                k = r[1]
                if isinstance(k, tuple):
                    if k[0] == "EWrongPassword":
                        fr.append("err:wrongpw:" + bts(k[1]).decode("utf-8", "backslashreplace"))   # the model's name must already BE valid UTF-8
                    elif k[0] == "ENoPool":
                        fr.append("err:nopool")
                    elif k[0] == "EPoolDown":
                        fr.append("err:pooldown")
                else:
                    fr.append("err:adminonly")
        else:
            fr.append({"RTlsNo": "ssl:N", "RTlsYes": "ssl:S", "RReadyForQuery": "Z", "RAuthOk": "authok", "RParamStatuses": "ps", "RBackendKeyData": "K"}[r])
    return fr


def impl_frames(frames, ssl_byte):
    fr = []
    if ssl_byte:
        fr.append("ssl:" + ssl_byte)
    for f in frames:
        t = f.get("t")
        if t == "R" and f.get("auth") == 5:
            fr.append("md5:" + f.get("salt", ""))
        elif t == "R" and f.get("auth") == 0:
            fr.append("authok")
        elif t == "R":
            fr.append("R?%s" % f.get("auth"))
        elif t == "S":
            if not fr or fr[-1] != "ps":
                fr.append("ps")
        elif t == "K":
            fr.append("K")
        elif t == "Z":
            fr.append("Z")
        elif t == "E":
            fl = f.get("fields", {})
            m, c = fl.get("M", ""), fl.get("C", "")
            if c == "28P01" and m.startswith("password authentication failed for user \""):
                fr.append("err:wrongpw:" + m[len("password authentication failed for user \""):-1])
            elif m == "terminating connection due to administrator command":
                fr.append("err:adminonly")
            elif m.startswith("No pool configured for database"):
                fr.append("err:nopool")
            elif m.startswith("Pool down for database"):
                fr.append("err:pooldown")
            else:
                fr.append("err:?" + m)
        else:
            fr.append("?" + str(t))
    return fr


def task_class(s):
    if s is None:
        return "missing"
    table = [("panic", "TaskPanic"), ("err:ClientBadStartup", "WBadStartup"), ('err:ProtocolSyncError("Unexpected startup code', "WProtocolSync"),
             ('err:ProtocolSyncError("Bad postgres client', "WProtocolSync"), ('err:ProtocolSyncError("Expected p, got', "WExpectedP"),
             ("err:ShuttingDown", "WShuttingDown"), ('err:ClientSocketError("password code"', "WSocket0"),
             ('err:ClientSocketError("password message length"', "WSocket1"), ('err:ClientSocketError("password message"', "WSocket2"),
             ('err:ClientGeneralError("Invalid password"', "WInvalidPassword"), ('err:ClientGeneralError("Invalid pool name"', "WNoPool"),
             ("err:ClientAuthImpossible", "WAuthImpossible"), ("err:ClientAuthPassthroughError", "WPassthrough"),
             ('err:ClientError("Could not obtain hash', "WRefetchFailed"), ("err:AuthPassthroughError", "WRefetchFailed"),
             ('err:ClientError("Pool down', "WPoolDown"), ('err:ClientError("Missing user', "WMissingUser"), ("err:TlsError", "WTls")]
    for pre, c in table:
        if s.startswith(pre):
            return c
    return "session:" + s[:40]


def observe(sc, res):
    """per client: dict(frames, auth_ok, salt, stream, task, opens, aq_opens, resp)"""
    ev = res.get("events", [])
    obs = {}
    by_name = {m["name"]: m for m in sc["meta"]}
    last_front = -1          # seq of the last event logged by a client or the harness (not by a backend)
    for e in ev:
        who = e.get("who")
        if who in by_name:
            o = obs.setdefault(who, {"frames": [], "auth_ok": False, "salt": b"", "sent": b"", "resp": None, "ssl": None, "seq0": None, "seq1": None, "drain": [], "outcome": None})
            if e["ev"] == "startup_sent":
                # pgcat may react to the packet before the client task logs `startup_sent`: the window opens at the
                # previous front-side event (clients are sequential)
                o["seq0"] = last_front
            elif e["ev"] == "startup_done":
                o["seq1"] = e["seq"]
                o["frames"] = e["frames"]
                o["auth_ok"] = e["auth_ok"]
                o["outcome"] = e["outcome"]
                o["ssl"] = e.get("ssl_byte")
                for f in e["frames"]:
                    if f.get("t") == "R" and f.get("auth") == 5:
                        o["salt"] = bytes.fromhex(f["salt"])
                if e.get("resp_hex"):
                    o["resp"] = bytes.fromhex(e["resp_hex"])
            elif e["ev"] == "sent" and e.get("ok"):
                o["sent"] += bytes.fromhex(e.get("hex") or "")
            elif e["ev"] == "recv":
                o["drain"].append(e)
                for f in e["frames"]:
                    if f.get("t") == "R" and f.get("auth") == 5 and not o["salt"]:
                        o["salt"] = bytes.fromhex(f["salt"])      # the challenge arrived after the connect step gave up waiting
                if not o["auth_ok"] and any(f.get("t") == "R" and f.get("auth") == 0 for f in e["frames"]):
                    # the startup only completed with the bytes of the later `send` step: AuthenticationOk arrived here
                    o["auth_ok"] = True
                    o["frames"] = o["frames"] + e["frames"]
                    o["late"] = True
                    o["seq1"] = e["seq"]
        if who not in ("b0", "bdown"):
            last_front = e.get("seq", last_front)
    tasks = res.get("task_results", [])
    # a refused client's startup may only finish after the bytes of the later `send` step arrived: its window ends
    # when its task has ended (wait_tasks), an admitted client's at AuthenticationOk .. ReadyForQuery (startup_done)
    for e in ev:
        if e.get("ev") == "wait_tasks" and e.get("label") in obs and not obs[e["label"]]["auth_ok"]:
            obs[e["label"]]["seq1"] = e["seq"]
    for name, m in by_name.items():
        o = obs.get(name)
        if o is None:
            continue
        ti = m.get("task_index")
        o["task"] = tasks[ti] if ti is not None and ti < len(tasks) else None
        if m.get("special") == "canary":
            o["task"] = None
        # backend connections opened while this startup was in progress
        o["opens"], o["aq_opens"], o["aq_sql"] = 0, 0, []
        if o["seq0"] is not None and o["seq1"] is not None:
            aqconns = set()
            for e in ev:
                if o["seq0"] < e.get("seq", -1) < o["seq1"] and e.get("ev") == "open":
                    if e["params"].get("user") == AQ_USER:
                        o["aq_opens"] += 1
                        aqconns.add((e["who"], e["conn"]))
                    else:
                        o["opens"] += 1
                if o["seq0"] < e.get("seq", -1) < o["seq1"] and e.get("ev") == "msg" and (e["who"], e["conn"]) in aqconns and e["tag"] == "Q":
                    o["aq_sql"].append(e["detail"].get("sql"))
    return obs


# ------------------------------------------------------------------ the check of one scenario
def check_scenario(run, sc, res, mres, stats):
    """returns list of (kind, what, replay) problems"""
    probs = []
    cfg = sc["cfg"]
    if "harness_error" in res or "start_error" in res:
        return [("harness", "scenario %d did not run: %s" % (sc["idx"], res.get("harness_error") or res.get("start_error")), {})]
    obs = observe(sc, res)
    clients = [m for m in sc["meta"]]
    admitted_markers = set()
    # ---- model vs implementation
    for m, mr in zip(clients, mres):
        o = obs.get(m["name"])
        if o is None:
            probs.append(("harness", "client %s has no events" % m["name"], {}))
            continue
        out, replies, events = mr
        mc = model_class(out)
        mf = model_frames(replies)
        fr = list(o["frames"])
        if not o["auth_ok"]:
            for d in o["drain"]:
                fr += d["frames"]
        itf = impl_frames(fr, o["ssl"])
        if m["kind"] == "tls:nohandshake":
            itf = [x for x in itf if not x.startswith("?")]      # rustls' alert record is not a PostgreSQL frame
        if o["auth_ok"]:
            # cut at ReadyForQuery of the startup
            itf = itf[: itf.index("Z") + 1] if "Z" in itf else itf
        if o["auth_ok"] and not m.get("special") == "holder":
            ic = "AdminAdmitted" if "AdminAdmitted" == mc else "Admitted"
            # which of the two is decided by what the session can do: the admin console refuses SELECT
            d = [f for dr in o["drain"] for f in dr["frames"]]
            is_admin_session = any(f.get("t") == "E" and "admin database" in f.get("fields", {}).get("M", "") for f in d)
            ic = "AdminAdmitted" if is_admin_session else "Admitted"
        elif o["auth_ok"]:
            ic = "Admitted"
        else:
            ic = task_class(o["task"])
            if ic.startswith("session:") and mc == "CancelRequest":
                ic = "CancelRequest"
        stats["classes"][mc] = stats["classes"].get(mc, 0) + 1
        stats["kinds"][m["kind"]] = stats["kinds"].get(m["kind"], 0) + 1
        mk_hex, mk = m["marker"].encode().hex(), m["marker"]     # the per-client tag must not make every case "distinct"
        stats["distinct"].add((json.dumps(cfg, sort_keys=True), m["kind"], (m["step"].get("raw_startup") or "").replace(mk_hex, "<tag>"),
                               json.dumps(m["step"].get("resp_edit"), sort_keys=True).replace(mk_hex, "<tag>"),
                               json.dumps(m["step"].get("password_raw"), sort_keys=True).replace(mk, "<tag>").replace(mk_hex, "<tag>"),
                               m["step"].get("password"), m["step"].get("auth_user"), m["step"].get("salt_override"), m["sd"], mc))
        n_aq = sum(1 for e in events if isinstance(e, tuple) and e[0] == "EvAuthQuery")
        n_val = sum(1 for e in events if isinstance(e, tuple) and e[0] == "EvValidate")
        rp = {"correspondence": "Auth/Model.v entry vs client_entrypoint", "scenario": sc["scn"], "client": m["name"], "kind": m["kind"],
              "model": {"outcome": mc, "frames": mf, "auth_query_fetches": n_aq, "validates": n_val},
              "impl": {"outcome": ic, "frames": itf, "auth_query_connections": o["aq_opens"], "pool_connections_opened": o["opens"], "task": o["task"]}}
        want_opens = 0 if mc == "WPoolDown" else n_val      # an unreachable server is tried, no connection appears on the mock
        want_aq = n_aq if aq_reachable(cfg, m) else 0      # likewise for an auth_query towards an unreachable server
        if mc != ic or mf != itf or (not m.get("special") and (want_aq != o["aq_opens"] or want_opens != o["opens"])):
            if m.get("special") == "canary":
                pass
            else:
                probs.append(("diff", "client %s (%s): model %s %s fetches=%d validates=%d, implementation %s %s aq_conns=%d opens=%d" % (
                    m["name"], m["kind"], mc, mf, n_aq, n_val, ic, itf, o["aq_opens"], o["opens"]), rp))
        stats["traces"] += 1
        # the admin_only dimension: which path / which kind of login / shutting down or not -> what happened
        idn = oracle_ident(m["raw"])
        if idn and not m.get("special"):
            path = ("tls" if m.get("tls_ok", True) else "tls_handshake_failed") if sc.get("tls") else ("ssl_declined_then_plain" if m["raw"].startswith(SSLREQ) else "plain")
            svd = served(cfg, idn[1], idn[0])
            target = "admin_db" if idn[1] in ADMIN_DBS else ("unknown" if not svd else "trust" if svd[1]["auth"] == "trust" else
                                                           "auth_query_only" if svd[1]["pw"] is None else "md5_cleartext")
            cell = stats.setdefault("gate", {}).setdefault("%s|admin_only=%s|%s" % (path, "true" if m["sd"] else "false", target), {})
            cell[ic] = cell.get(ic, 0) + 1
            if m["sd"] and target != "admin_db" and (o["auth_ok"] or any(x.startswith("md5:") for x in itf)):
                probs.append(("monitor", "client %s (%s, %s path) was %s while pgcat is shutting down (admin_only): %s" % (
                    m["name"], target, path, "admitted" if o["auth_ok"] else "sent an MD5 challenge", itf),
                    {"monitor": "admin_only refuses every non-admin startup before any challenge, on every path", "scenario": sc["scn"], "client": m["name"], "path": path}))
        if o["salt"]:
            stats.setdefault("salts", []).append(o["salt"])
        if o["auth_ok"]:
            admitted_markers.add(m["marker"])
        # ---- monitor M1: AuthenticationOk only with valid credentials (hashlib oracle, no model)
        stream_user, stream_db = None, None
        salt = o["salt"]
        resp = o["resp"]
        body = None
        if resp and len(resp) >= 5 and resp[0:1] == b"p" and struct.unpack(">i", resp[1:5])[0] == len(resp) - 1:
            body = resp[5:]
        elif resp and len(resp) >= 5 and resp[0:1] == b"p":
            ln = struct.unpack(">i", resp[1:5])[0]
            if 4 <= ln <= len(resp) - 1:
                body = resp[5:1 + ln]
        ident = oracle_ident(m["raw"])
        if o["auth_ok"]:
            ok, why = False, "no identity in the startup packet"
            if ident:
                iu, idb = ident
                if idb in ADMIN_DBS:
                    ok = cfg["admin_auth"] == "trust" or (body is not None and body == answer(cfg["admin_user"], cfg["admin_pw"], salt))
                    why = "admin database without the admin credentials"
                elif m["sd"]:
                    ok, why = False, "non-admin login while shutting down"
                else:
                    sv = served(cfg, idb, iu)
                    if sv is None:
                        ok, why = False, "(database, user) not configured"
                    elif sv[1]["auth"] == "trust":
                        ok = True
                    else:
                        valid = set()
                        if sv[1]["pw"] is not None:
                            valid.add(answer(iu, sv[1]["pw"], salt))
                        if sv[0]["aq"] or sv[1]["pw"] is None:
                            # every hash the mock served for this user up to now
                            for sh in [sc["shadow0"]] + [x["shadow"] for x in clients[: clients.index(m) + 1]]:
                                h = mock_fetch(sh, iu, sv[0]["backend"] == "b0")
                                if h is not None:
                                    valid.add(answer_from_shadow(h.encode(), salt))
                        ok = body is not None and body in valid
                        why = "password answer is not the MD5 answer for any secret of the user"
            if not ok:
                probs.append(("monitor", "client %s (%s) received AuthenticationOk: %s" % (m["name"], m["kind"], why),
                              {"monitor": "AuthenticationOk => valid credentials", "scenario": sc["scn"], "client": m["name"], "response_hex": resp.hex() if resp else None, "salt": salt.hex()}))
        # ---- monitor M2: the configured cleartext password on a reachable, configured pool is admitted
        if m["kind"] in ("good",) and ident and not m["sd"]:
            iu, idb = ident
            sv = served(cfg, idb, iu)
            if sv and sv[0]["backend"] == "b0" and (sv[1]["auth"] == "trust" or (sv[1]["pw"] is not None and m["step"]["password"] == sv[1]["pw"] and m["step"]["auth_user"] == iu)):
                stats["m2"] += 1
                if not o["auth_ok"]:
                    probs.append(("monitor", "client %s with the configured password of (%s, %s) was refused: %s" % (m["name"], idb, iu, itf),
                                  {"monitor": "valid credentials => admitted", "scenario": sc["scn"], "client": m["name"]}))
        # ---- md5_hash_password vectors (the harness client computes its answer with pgcat's function)
        st = m["step"]
        if resp and "password_raw" not in st and "resp_edit" not in st and salt:
            used = bytes.fromhex(st["salt_override"]) if "salt_override" in st else salt
            want = answer(st["auth_user"], st["password"], used)
            stats["md5_vectors"] += 1
            if resp != b"p" + struct.pack(">i", len(want) + 4) + want:
                probs.append(("monitor", "md5_hash_password(%r, %r, %s) = %s, PostgreSQL/hashlib says %s" % (st["auth_user"], st["password"], used.hex(), resp[5:].hex(), want.hex()),
                              {"monitor": "md5_hash_password vs hashlib", "input": {"user": st["auth_user"], "password": st["password"], "salt": used.hex()}}))
    # ---- monitor M3: nothing of a refused client reaches a server; every backend message is attributable
    refused = [m["marker"] for m in clients if m["marker"] not in admitted_markers]
    aq_sqls = {AQ_SQL.replace("$1", u["name"]) for p in cfg["pools"] if p["aq"] for u in p["users"]}
    for e in res.get("events", []):
        if e.get("ev") not in ("msg", "open") or e.get("who") not in ("b0", "bdown"):
            continue
        blob = json.dumps(e.get("params")) if e["ev"] == "open" else (bytes.fromhex(e["detail"].get("raw", "")).decode("latin1") + json.dumps(e["detail"]))
        stats["backend_events"] += 1
        for mk in refused:
            if mk in blob:
                probs.append(("monitor", "bytes of the refused client %s reached backend %s: %s" % (mk, e["who"], blob[:200]),
                              {"monitor": "no client bytes to servers before admission", "scenario": sc["scn"], "backend_event": e}))
        if e["ev"] == "msg":
            own = aq_sqls | {"SET application_name TO 'pgcat';"}       # constant texts pgcat itself originates
            ok = e["tag"] == "X" or (e["tag"] == "Q" and e["detail"].get("sql") in own) or any(mk in blob for mk in admitted_markers)
            if not ok:
                probs.append(("monitor", "backend %s received a message that is neither pgcat's own (auth_query, Terminate) nor tagged by an admitted client: %s" % (e["who"], blob[:200]),
                              {"monitor": "backend traffic attribution", "scenario": sc["scn"], "backend_event": e}))
    return probs


def aq_reachable(cfg, m):
    """does the client's pool live on a reachable backend (an auth_query towards an unreachable one leaves no trace on the mock)"""
    ident = oracle_ident(m["raw"])
    if not ident:
        return True
    sv = served(cfg, ident[1], ident[0])
    return sv is None or sv[0]["backend"] == "b0"


def oracle_ident(raw):
    """(user, database) a well-formed first packet names, by PostgreSQL's reading of the packet (independent of the model);
    None when the packet is not a plain v3 startup with a user.  Only used for clients that WERE admitted."""
    off = 0
    if len(raw) >= 8 and struct.unpack(">ii", raw[:8]) == (8, 80877103):
        off = 8
    if len(raw) < off + 8:
        return None
    ln, code = struct.unpack(">ii", raw[off:off + 8])
    if code != 196608 or ln < 8 or len(raw) < off + ln:
        return None
    body = raw[off + 8: off + ln]
    d = {}
    while body:                                   # name NUL value NUL ... ; an empty name ends the list; values may be empty
        i = body.find(b"\0")
        if i < 0:
            return None
        name, body = body[:i], body[i + 1:]
        if not name:
            break
        j = body.find(b"\0")
        if j < 0:
            return None
        d[name.decode("utf-8", "replace")] = body[:j].decode("utf-8", "replace")
        body = body[j + 1:]
    if "user" not in d:
        return None
    return d["user"], d.get("database", d["user"])


# ------------------------------------------------------------------ salts: a statistical monitor (NOT a theorem) and a directed replay probe
# The theorems quantify over every salt; what binds an answer to ONE connection is that md5_challenge draws the salt at
# random.  That is a property of the generator, checked here on the salts actually issued during the run.
PROBE_TRIES = 3000
FALSE_ALARM_BUDGET = 1e-12


def _lchoose(n, k):
    import math
    return math.lgamma(n + 1) - math.lgamma(k + 1) - math.lgamma(n - k + 1)


def salt_thresholds(n, tries=PROBE_TRIES, budget=FALSE_ALARM_BUDGET):
    """thresholds for n salts and, for each test, an upper bound of the probability that a UNIFORM independent 32-bit
    generator trips it (union bounds; natural logs).  Returns (thresholds, bounds, total)."""
    import math
    share = budget / 8
    th, bd = {}, {}
    # (a) salts whose four bytes are equal: each with probability 2^-24;  P(X >= k) <= C(n,k) 2^-24k
    k = 1
    while _lchoose(n, k) + k * math.log(2.0 ** -24) > math.log(share):
        k += 1
    th["all_bytes_equal_min"], bd["all_bytes_equal"] = k, math.exp(_lchoose(n, k) + k * math.log(2.0 ** -24))
    # (b) salts equal to an EARLIER salt (n - distinct): the j-th draw hits an earlier value with probability < n 2^-32,
    #     independently of the past;  P(D >= k) <= C(n,k) (n 2^-32)^k
    k = 1
    while _lchoose(n, k) + k * math.log(n * 2.0 ** -32) > math.log(share):
        k += 1
    th["repeated_salts_min"], bd["repeated_salts"] = k, math.exp(_lchoose(n, k) + k * math.log(n * 2.0 ** -32))
    # (c) a byte position with fewer than 200 distinct values: some set of 57 values never drawn at that position
    th["distinct_values_per_position_min"] = 200
    bd["distinct_values"] = 4 * math.exp(_lchoose(256, 57) + n * math.log(199.0 / 256)) if n else 1.0
    # (d) two positions equal in more than 5% of the salts: Binomial(n, 1/256) tail, Chernoff with the KL divergence
    q, p0 = 0.05, 1.0 / 256
    kl = q * math.log(q / p0) + (1 - q) * math.log((1 - q) / (1 - p0))
    th["positions_equal_fraction_max"] = q
    bd["positions_equal"] = 6 * math.exp(-n * kl)
    # (e) the directed probe reports only a replay admitted in TWO independent rounds: each needs the recorded salt to
    #     recur within `tries` draws
    bd["replay_two_rounds"] = (tries * 2.0 ** -32) ** 2
    return th, bd, sum(bd.values())


def salt_monitor(salts):
    """-> (list of findings, info for the evidence)"""
    n = len(salts)
    th, bd, total = salt_thresholds(n)
    info = {"salts": n, "distinct": len(set(salts)), "thresholds": th, "uniform_generator_false_alarm_bounds": bd,
            "false_alarm_probability_upper_bound": total, "kind": "statistical monitor on the issued salts, not a theorem (the theorems hold for every salt)"}
    finds = []
    if n < 2000:
        info["skipped"] = "fewer than 2000 salts collected"
        return finds, info
    eq = [x for x in salts if len(x) == 4 and len(set(x)) == 1]
    info["all_bytes_equal"] = len(eq)
    if len(eq) >= th["all_bytes_equal_min"]:
        finds.append("%d of %d issued salts consist of one byte repeated four times (e.g. %s): at most 256 such salts exist" % (len(eq), n, eq[0].hex()))
    rep = n - len(set(salts))
    info["repeated"] = rep
    if rep >= th["repeated_salts_min"]:
        finds.append("%d of %d issued salts repeat an earlier salt (a uniform 32-bit salt repeats %.1e times on average)" % (rep, n, n * n / 2.0 / 2 ** 32))
    dv = [len({x[i] for x in salts if len(x) == 4}) for i in range(4)]
    info["distinct_values_per_position"] = dv
    for i, d in enumerate(dv):
        if d < th["distinct_values_per_position_min"]:
            finds.append("byte %d of the salt takes only %d distinct values over %d salts" % (i, d, n))
    pe = {}
    for i in range(4):
        for j in range(i + 1, 4):
            f = sum(1 for x in salts if len(x) == 4 and x[i] == x[j]) / float(n)
            pe["%d=%d" % (i, j)] = round(f, 5)
            if f > th["positions_equal_fraction_max"]:
                finds.append("bytes %d and %d of the salt are equal in %.1f%% of %d salts (uniform: 0.39%%)" % (i, j, 100 * f, n))
    info["positions_equal_fraction"] = pe
    return finds, info


def start_salt_probe(probe_bin):
    toml = W.make_toml(pools={"db1": {"users": [{"username": "alice", "password": "apw", "pool_size": 2}],
                                      "shards": [{"database": "sdb", "servers": [["b0", "primary"]]}]}})
    inp = {"toml": toml, "user": "alice", "database": "db1", "password": "apw", "tries": PROBE_TRIES, "rounds": 2, "tmpdir": vlib.TMP}
    import subprocess
    p = subprocess.Popen([probe_bin], stdin=subprocess.PIPE, stdout=subprocess.PIPE, stderr=subprocess.PIPE)
    p.stdin.write(json.dumps(inp).encode())
    p.stdin.close()
    return p, inp


def finish_salt_probe(run, probe, stats):
    p, inp = probe
    try:
        out = p.stdout.read().decode("utf-8", "replace")
        p.wait(timeout=180)
        res = json.loads(out.strip().splitlines()[-1])
    except Exception as ex:
        run.broken.append("salt probe did not run: %s" % ex)
        return
    if "start_error" in res or not res.get("logins") or not res["logins"][0].get("ok"):
        run.broken.append("salt probe: the reference login failed: %s" % json.dumps(res)[:300])
        return
    salts = [bytes.fromhex(x) for x in res["salts"]] + stats.get("salts", [])
    finds, info = salt_monitor(salts)
    admitted = [r for r in res["replays"] if r["admitted"]]
    info["probe"] = {"tries": inp["tries"], "logins": len(res["logins"]), "recurrences_of_a_recorded_salt": len(res["replays"]), "replays_admitted": len(admitted)}
    run.cov["salt_monitor"] = info
    rp = {"monitor": "salt quality / replay", "salt_probe_input": inp, "logins": res["logins"], "replays": res["replays"],
          "statistics": {k: info.get(k) for k in ("salts", "distinct", "all_bytes_equal", "repeated", "distinct_values_per_position", "positions_equal_fraction")}}
    if len(admitted) >= 2:
        a = admitted[0]
        run.violation("counterexample", "replay: the PasswordMessage recorded on one connection (salt %s) was accepted on a later connection that was issued the same salt "
                      "(after %d fresh connections; confirmed in a second round after %d): the answer is not bound to the connection" % (a["salt"], a["try"] + 1, admitted[1]["try"] + 1), rp)
    elif finds:
        run.violation("counterexample", "the salts issued by md5_challenge are not random per connection: " + "; ".join(finds), rp)


def run_batch(run, wire, scs, stats, label):
    """wire: the `wire` binary, or `tlsauth` for scenarios built with tls=True"""
    results = W.run_scenarios(wire, [s["scn"] for s in scs], workers=16, timeout=120)
    exprs = []
    for sc, res in zip(scs, results):
        if "events" not in res:
            exprs.append("session %s {| caches := []; valid := [] |} []" % coq_cfg(sc["cfg"]))
            continue
        obs = observe(sc, res)
        inputs = []
        for m in sc["meta"]:
            o = obs.get(m["name"], {"salt": b"", "resp": None, "sent": b""})
            stream = (SSLREQ if sc.get("tls") else b"") + m["raw"] + (o["resp"] or b"") + o["sent"]
            inputs.append((m["sd"], o["salt"], stream, m["shadow"], m.get("tls_ok", True)))
        exprs.append(coq_session(sc, inputs))
    vals = vlib.coq_eval("c09" + label, PREAMBLE, exprs, shard=max(1, (len(exprs) + 15) // 16), timeout=900)
    allprobs = []
    for sc, res, v in zip(scs, results, vals):
        mres = norm(vlib.parse_coq(v))
        probs = check_scenario(run, sc, res, mres, stats)
        for p in probs:
            allprobs.append((sc, p))
    return allprobs


def report(run, allprobs):
    seen = 0
    for sc, (kind, what, rp) in allprobs:
        if kind == "harness":
            run.broken.append(what)
            continue
        seen += 1
        if seen > 3:
            break
        if kind == "monitor":
            run.violation("counterexample", what, rp)
        else:
            # model and implementation disagree: a failing input exists iff a monitor failed on the same scenario
            mon = [p for s2, p in allprobs if s2 is sc and p[0] == "monitor"]
            run.violation("counterexample" if mon else "tie-broken", what, rp, found_input=bool(mon))


def check(run):
    quick = run.tier == "quick"
    rng = run.rng
    run.assumptions += [
        "Coq 8.16.1 kernel + vm_compute; no axioms (Print Assumptions: closed); the digest is a universally quantified function in every theorem",
        "the md-5 crate computes MD5 (environment): md5_hash_password is compared with Python hashlib on every unedited handshake of the run",
        "coq/Auth/Md5.v (RFC 1321, only used to RUN the model and in examples) agrees with hashlib: any disagreement shows up as a model/implementation difference",
        "a client's TCP byte stream is modelled as a finite list followed by EOF; a silent client never completes a startup (no admission)",
        "salt quality is checked statistically on the salts issued in the run (equal bytes, repeats, per-position value sets, position correlations; false-alarm bound in coverage.salt_monitor) and by a directed replay probe - a monitor, not a theorem; cryptographic unpredictability of rand and timing side channels are not covered; TLS itself (rustls) is environment: the model treats an accepted TLS session as a transparent channel, the tie runs the handshakes through real rustls sessions with the repository's CI certificate",
        "mock backend answers auth_query from a table (harness/src/mockpg.rs); PostgreSQL itself is not in the sandbox",
        "integer-overflow checks: the harness is a dev build (chk = true); the release behaviour (chk = false) is modelled and proved, not run",
    ]
    run.cov["trusted_base"] = ["coqc 8.16.1 kernel", "vm_compute", "coq/Auth/Model.v (hand model of client.rs:119-789, messages.rs:184-262, auth_passthrough.rs:126-138)",
                               "coq/Auth/Spec.v (PostgreSQL MD5 answer, PasswordMessage frame, served/secret_of)", "harness/src/bin/wire.rs + mockpg.rs + client.rs + pooler.rs",
                               "props/c09.py (generator, canonicaliser, hashlib oracle)", "Print Assumptions: Closed under the global context (all theorems)"]
    proof_ok, log = vlib.prove(run, COQ_FILES, "Auth/Props.v", extra_targets=["Auth/Driver.vo"])
    run.log("proof ok=%s" % proof_ok)
    ok, blog, bins = vlib.cargo_build(["wire", "tlsauth", "saltprobe"])
    if not ok:
        run.violation("tie-broken", "harness does not build against /repo (API used by the correspondence changed)",
                      {"correspondence": "wire harness build", "log": blog[-3000:]}, found_input=False)
        return
    wire = bins["wire"]
    probe = start_salt_probe(bins["saltprobe"])          # runs beside the scenarios
    nsc = 56 if quick else 1500
    stats = {"classes": {}, "kinds": {}, "distinct": set(), "traces": 0, "md5_vectors": 0, "m2": 0, "backend_events": 0}
    allprobs = []
    model_ok = os.path.exists(os.path.join(vlib.COQ, "Auth", "Driver.vo"))
    batch = 64 if quick else 160
    done = 0
    samples = []
    while done < nsc and not allprobs:
        scs = [build_scenario(rng, done + i, quick) for i in range(min(batch, nsc - done))]
        if model_ok:
            allprobs = run_batch(run, wire, scs, stats, "b%d" % done)
        else:
            allprobs = monitors_only(run, wire, scs, stats)
        if not samples:
            m = scs[0]["meta"][0]
            samples.append({"scenario_flavour": scs[0]["flavour"], "client_kind": m["kind"], "startup_hex": m["raw"].hex()[:120], "config_pools": [p["name"] for p in scs[0]["cfg"]["pools"]]})
        done += len(scs)
        run.log("scenarios %d/%d handshakes=%d problems=%d" % (done, nsc, stats["traces"], len(allprobs)))
    # the same handshakes inside a TLS channel (startup_tls): SSLRequest -> 'S' -> rustls handshake -> startup
    have_certs = all(os.path.exists(os.path.join(vlib.REPO, ".circleci", f)) for f in ("server.cert", "server.key"))
    tls_before = stats["traces"]
    if have_certs and not allprobs:
        ntls = 12 if quick else 150
        done_t = 0
        while done_t < ntls and not allprobs:
            scs = [build_scenario(rng, 100000 + done_t + i, quick, tls=True) for i in range(min(batch, ntls - done_t))]
            allprobs = run_batch(run, bins["tlsauth"], scs, stats, "tls%d" % done_t) if model_ok else monitors_only(run, bins["tlsauth"], scs, stats)
            done_t += len(scs)
        run.log("TLS scenarios %d handshakes=%d problems=%d" % (done_t, stats["traces"] - tls_before, len(allprobs)))
    run.cov["tls_handshakes"] = stats["traces"] - tls_before
    if not have_certs:
        run.assumptions.append("no certificate found under /repo/.circleci: the TLS path (startup_tls) was not run")
    report(run, allprobs)
    finish_salt_probe(run, probe, stats)
    run.cov["evaluations"] = stats["traces"]
    run.cov["traces_validated_against_impl"] = stats["traces"] if model_ok else 0
    run.cov["distinct_nontrivial"] = len(stats["distinct"])
    run.cov["transitions_total"] = len(ALL_CLASSES)
    run.cov["transitions_covered"] = len([c for c in ALL_CLASSES if stats["classes"].get(c)])
    run.cov["outcome_histogram"] = dict(sorted(stats["classes"].items()))
    run.cov["input_distribution"] = dict(sorted(stats["kinds"].items()))
    run.cov["admin_only_matrix"] = {k: stats.get("gate", {})[k] for k in sorted(stats.get("gate", {}))}
    want = ["%s|admin_only=true|%s" % (pth, t) for pth in ("plain", "ssl_declined_then_plain", "tls") for t in ("md5_cleartext", "trust", "auth_query_only", "admin_db", "unknown")
            if not (pth == "ssl_declined_then_plain" and t in ("trust", "auth_query_only", "unknown"))]
    run.cov["admin_only_cells_missing"] = [k for k in want if k not in stats.get("gate", {})]
    run.cov["md5_vectors_vs_hashlib"] = stats["md5_vectors"]
    run.cov["valid_credentials_admitted_checks"] = stats["m2"]
    run.cov["backend_events_attributed"] = stats["backend_events"]
    run.cov["samples"] = samples + [{"outcomes": dict(sorted(stats["classes"].items()))}]
    run.cov["rule"] = ("%d scenarios (one pgcat process each): random configuration (1-3 pools, 1-3 users each incl. duplicate names, non-ASCII names, cleartext / auth_query-only secrets, "
                       "trust / md5 for users and admin, pool- or general-level auth_query, an unreachable backend) x 7-10 sequential clients: configured password, server password, wrong password, "
                       "hash for another user, unknown user/database, admin database with admin / user / wrong credentials, truncated / extended / bit-flipped / replayed (other salt) answers, "
                       "declared lengths 0..3, negative, i32::MIN.., too long, too short, 1-4 MiB, other message types in place of 'p', malformed first packets (lengths 0..7, negative, huge, unknown code, "
                       "cancel, SSLRequest sequences, missing user, odd strings, unterminated string, duplicate keys), server-side password changes between clients, shutdown (SIGINT arm) with "
                       "non-admin and admin logins.  distinct = distinct (configuration, client description, shutdown flag, model outcome) tuples" % nsc)
    if not proof_ok and not run.violations and not run.broken:
        # proof broken: the monitors above ARE the search for a failing input on the implementation
        run.violation("proof-broken", "proof obligation Auth/Props.v no longer checks; the hashlib / attribution monitors found no failing input in %d handshakes" % stats["traces"],
                      {"theorem": "Auth/Props.v", "coq_log": log[-2500:]}, found_input=False)
    if not quick and proof_ok:
        vlib.coqchk(run, ["PV.Auth.Props"])


def monitors_only(run, wire, scs, stats):
    """model not available (proof/model does not build): run the model-free monitors only"""
    results = W.run_scenarios(wire, [s["scn"] for s in scs], workers=16, timeout=120)
    allprobs = []
    for sc, res in zip(scs, results):
        fake = [("Unknown", [], [])] * len(sc["meta"])
        for p in check_scenario(run, sc, res, fake, stats):
            if p[0] != "diff":
                allprobs.append((sc, p))
    return allprobs


def replay(run, path):
    r = json.load(open(path))
    print(json.dumps({k: v for k, v in r.items() if k != "scenario"}, indent=1)[:3000])
    ok, blog, bins = vlib.cargo_build(["wire", "tlsauth", "saltprobe"])
    if r.get("monitor", "").startswith("salt quality"):
        class _R:                      # collect what finish_salt_probe would report, without writing a replay file
            broken, cov, out = [], {}, []
            def violation(self, kind, what, rp, found_input=True):
                self.out.append(what)
        rr = _R()
        finish_salt_probe(rr, start_salt_probe(bins["saltprobe"]), {})
        print(json.dumps(rr.cov.get("salt_monitor"), indent=1)[:2500])
        for w in rr.out:
            print("replay:", w)
        print("replay: %s" % ("reproduced" if rr.out else "not reproduced"))
        return 1 if rr.out else 0
    if "scenario" not in r:
        return 0
    res = W.run_scenario(bins["tlsauth" if "tls_certificate" in r["scenario"].get("toml", "") else "wire"], r["scenario"])
    name = r.get("client")
    bad = 0
    for e in res.get("events", []):
        if e.get("who") == name and e.get("ev") in ("startup_done", "recv"):
            print(json.dumps(e)[:1500])
        if e.get("ev") == "msg" and name and ("c09:%s;" % name) in (bytes.fromhex(e["detail"].get("raw", "")).decode("latin1")):
            print("backend saw:", json.dumps(e)[:600])
    print("task_results:", res.get("task_results"))
    impl = r.get("impl", {})
    for e in res.get("events", []):
        if e.get("who") == name and e.get("ev") == "startup_done":
            model_auth = r.get("model", {}).get("outcome") in ("Admitted", "AdminAdmitted")
            if "model" in r and e["auth_ok"] != model_auth:
                bad = 1
            if r.get("monitor", "").startswith("AuthenticationOk") and e["auth_ok"]:
                bad = 1
    print("replay: %s" % ("reproduced" if bad else "not reproduced (or not an admission difference)"))
    return bad
