"""C20 — mirroring never affects the primary path.

P: coq/Mirror/Props.v (c20_noninterference[_env|_world], c20_same_as_without_mirrors, c20_client_path_independent,
   c20_mirrors_independent[_send], c20_mirror_conn_replaced_only_after_failure, c20_mirror_one_continuous_connection,
   c20_run_channel_view, c20_valid_cfg_attaches_all,
   c20_never_blocks, c20_send_always_completes, c20_mirror_sees_subsequence,
   c20_mirror_only_own_server, c20_attachment, c20_no_partial[_deliver], c20_env_only_removes,
   c20_queue_bounded) over coq/Mirror/Model.v; the channel capacity and the shape facts the
   model relies on (MirroringManager::send is a plain fn using try_send only, Server::send calls it
   first and without awaiting, attachment by index equality) are re-extracted from
   src/mirrors.rs / server.rs / pool.rs on every run (T1, translate/mirror_consts.py).
T2: wire harness.  Every scenario is run TWICE with the same scripted client program and the same
   fault schedule: once with the [mirrors] of the configuration and once without.
   (i)  transcript equality: the exact bytes every client receives per request, and the exact
        frames the real servers receive per connection, must be identical; every request of the
        mirrored run completes within a coarse latency bound.
   (ii) monitors on what the mirror backends logged: whole frames only, per mirror connection an
        in-order subsequence of the WHOLE send buffers of one connection of the server the mirror
        targets (buffer boundaries = pgcat's own buffering rule: a Query alone, an extended batch
        up to Sync, CopyData up to the flush threshold / CopyDone), never traffic of another
        server, no connection at all for a mirror whose target index has no server.
   (iv) primary-path round-trip monitor (robust under load): for each fault kind (mirrors unreachable / refusing longer than
        connect_timeout, hung at startup, hung, not reading), with 1 and with 2 runtime workers, ONE process runs 20 small round
        trips through a pool without mirrors and then the same 20 through the mirrored pool (2 server connections x 2 mirrors)
        while the fault lasts; violation only if the faulted median > 10 x the baseline median AND > 150 ms (confirmed on a
        re-run).  This is a monitor of the real code; the theorem is c20_client_path_independent, whose assumption (a waiting
        mirror task does not hold a runtime worker) is exactly what is observed here.
   (v)  configuration dimension plugins (prewarmer with 1-2 statements, query_logger; global and pool level): the mirror log
        must still be a subsequence WITH multiplicities of one connection of the mirrored server (a mirror's own connection
        must not run the prewarmer itself); large statements (64 KiB .. 4 MiB) into a mirror that stops reading for 1.5 s and
        then reads again: every frame the mirror parsed afterwards is one the server got, in order.
   (iii) differential against the Coq model where the schedule is deterministic (healthy mirror:
        everything; mirror down from the start: exactly the first `capacity` buffers once it is up)
        and for the attachment function on every generated mapping.
"""
import hashlib, json, os, sys
import vlib
from props import wirelib as W

COQ_FILES = ["Mirror/Model.v", "Mirror/Proofs.v", "Mirror/Props.v"]
LAT_BOUND_MS = 500
FLUSH_THR = 8196          # client.rs 'd' arm: `if self.buffer.len() > 8196` (tied by C03's translator)
# "down_held" = not listening (connect refused) with the port kept reserved; "refuse" = accepts and closes at once;
# "noread" = established sessions stop reading (TCP back-pressure on the mirror task)
FAULTS = ["down_held", "refuse", "hang_startup", "hang", "noread", "slow", "close_mid_reply", "error"]

KNOWN_TEXT = {
    "C20-M1": "mirror-only: the mirror task polls server.recv(None) inside tokio::select! (mirrors.rs:84); recv reads a frame with read_u8/read_i32/read_exact, which is not cancellation safe: when the next buffer arrives while a reply of the mirror is half read, the bytes read so far are thrown away and the mirror connection is desynchronised; the next 'frame' is garbage (a negative length makes BytesMut::with_capacity panic => the mirror task dies and that server connection is never mirrored again; a large positive one allocates up to 2 GiB). The primary path is unaffected",
    "C20-M2": "mirror-only / resource leak: while a mirror cannot be reached the mirror task loops on pool.get() (mirrors.rs:64-73, `continue`) and looks at neither its exit channel nor its byte channel; when the mirrored server connection is dropped meanwhile the task (with its pool and its retry timer) lives on for as long as the mirror stays unreachable, and once the mirror is back it opens a connection and may replay stale buffers of a server connection that no longer exists",
    "C20-M3": "mirror-only: buffers are dropped individually when the channel is full, so a mirror session can be left inside a transaction block (BEGIN delivered, COMMIT dropped) for good; ServerPool::has_broken deliberately keeps such a mirror connection (Role::Mirror exemption)",
}


def translate(run):
    os.makedirs(os.path.join(vlib.COQ, "Gen"), exist_ok=True)
    out = os.path.join(vlib.COQ, "Gen", "MirrorConsts.v")
    tmp = out + ".new"
    src = os.path.join(vlib.REPO, "src")
    rc, log = vlib.sh([sys.executable, os.path.join(vlib.ROOT, "translate", "mirror_consts.py"),
                       os.path.join(src, "mirrors.rs"), os.path.join(src, "server.rs"), os.path.join(src, "pool.rs"), tmp], timeout=60)
    if rc != 0:
        return False, log.strip()
    new = open(tmp).read()
    if not os.path.exists(out) or open(out).read() != new:
        os.replace(tmp, out)
    else:
        os.remove(tmp)
    return True, ""


def gen_capacity():
    import re
    src = open(os.path.join(vlib.COQ, "Gen", "MirrorConsts.v")).read()
    return int(re.search(r"Definition mirror_chan_capacity : nat := (\d+)\.", src).group(1))


# --------------------------------------------------------------------------- configurations
# (name, servers [(backend, role)], mirrors [(backend, target index)], pool_size)
CONFIGS = [
    ("one/m0>0", [("p0", "primary")], [("m0", 0)], 1),
    ("one/m0>0,m1>0", [("p0", "primary")], [("m0", 0), ("m1", 0)], 1),
    ("two/m0>0", [("p0", "primary"), ("r1", "replica")], [("m0", 0)], 1),
    ("two/m0>1", [("p0", "primary"), ("r1", "replica")], [("m0", 1)], 1),
    ("two/m0>0,m1>1", [("p0", "primary"), ("r1", "replica")], [("m0", 0), ("m1", 1)], 1),
    ("two/m0>1,m1>1", [("p0", "primary"), ("r1", "replica")], [("m0", 1), ("m1", 1)], 1),
    ("two/m0>1,m1>0", [("p0", "primary"), ("r1", "replica")], [("m0", 1), ("m1", 0)], 1),
    ("one/pool2/m0>0", [("p0", "primary")], [("m0", 0)], 2),
    ("one/cache/m0>0", [("p0", "primary")], [("m0", 0)], 1, {"prepared_statements_cache_size": 50}),
    ("two/cache/m0>1,m1>0", [("p0", "primary"), ("r1", "replica")], [("m0", 1), ("m1", 0)], 1, {"prepared_statements_cache_size": 50}),
    # plugins at global / pool level in the mirrored pool: the prewarmer runs ONCE per connection of the real server (and is
    # copied to the mirrors like any other request); a mirror's own connection must not add statements of its own
    ("one/plug-g2/m0>0", [("p0", "primary")], [("m0", 0)], 1, {"_plugins_global": (2, True)}),
    ("one/plug-p1/m0>0,m1>0", [("p0", "primary")], [("m0", 0), ("m1", 0)], 1, {"_plugins_pool": (1, True), "query_parser_enabled": True}),
    ("two/plug-p2/m0>1,m1>0", [("p0", "primary"), ("r1", "replica")], [("m0", 1), ("m1", 0)], 1, {"_plugins_pool": (2, False), "query_parser_enabled": True}),
    ("one/pool2/plug-g1/m0>0", [("p0", "primary")], [("m0", 0)], 2, {"_plugins_global": (1, False), "_plugins_pool": None}),
]


def plugins_toml(nq, logger):
    t = "[plugins]\n\n[plugins.prewarmer]\nenabled = true\nqueries = [%s]\n" % ", ".join('"SELECT %d /*prewarm_%d*/"' % (70 + i, i) for i in range(nq))
    if logger:
        t += "\n[plugins.query_logger]\nenabled = true\n"
    return t
# C20-M4 (fixed in /repo by 0edee1c, kept as a regression): a mirror whose mirroring_target_index is not the position of
# a server of its shard used to be accepted and silently never used; Shard::validate must REJECT such a configuration.
REJECTED_CONFIGS = [
    ("one/m0>0,m1>5", [("p0", "primary")], [("m0", 0), ("m1", 5)], 1),
    ("one/m0>1", [("p0", "primary")], [("m0", 1)], 1),
    ("two/m0>0,m1>5", [("p0", "primary"), ("r1", "replica")], [("m0", 0), ("m1", 5)], 1),
    ("two/m0>2", [("p0", "primary"), ("r1", "replica")], [("m0", 2)], 1),
    ("two/m0>1,m1>2", [("p0", "primary"), ("r1", "replica")], [("m0", 1), ("m1", 2)], 1),
]
CFG = {c[0]: c for c in CONFIGS}
ALL_BACKENDS = ["p0", "r1", "m0", "m1"]


def failed(res):
    """a scenario that did not run (pgcat refused the configuration, harness crash/timeout): never index into it"""
    return (not isinstance(res, dict)) or "harness_error" in res or "start_error" in res or "events" not in res


def make_toml(cfg, with_mirrors):
    name, servers, mirrors, pool_size = cfg[:4]
    extra = dict(cfg[4]) if len(cfg) > 4 else {}
    pg, pp = extra.pop("_plugins_global", None), extra.pop("_plugins_pool", None)
    shard = {"servers": [[b, r] for b, r in servers]}
    if with_mirrors and mirrors:
        shard["mirrors"] = [[b, i] for b, i in mirrors]
    # pool-level connect_timeout: it is the one the mirror's own 1-connection pool uses (mirrors.rs create_pool; default 10 s)
    pool = {"opts": dict({"default_role": "primary", "primary_reads_enabled": True, "connect_timeout": 400}, **extra), "users": [{"pool_size": pool_size}], "shards": [shard]}
    if pp:
        pool["plugins"] = plugins_toml(*pp)
    return W.make_toml(general={"connect_timeout": 400, "healthcheck_timeout": 400, "healthcheck_delay": 600000},
                       pools={"db": pool}, plugins=plugins_toml(*pg) if pg else None)


def coq_cfg(cfg):
    name, servers, mirrors, pool_size = cfg[:4]
    return "[mkShard [%s] [%s]]" % ("; ".join("%d%%N" % i for i in range(len(servers))),
                                      "; ".join("mkMirror %d%%N %d" % (j, t) for j, (b, t) in enumerate(mirrors)))


# --------------------------------------------------------------------------- client programs
def Q(sql):
    return {"t": "Q", "sql": sql}


def req(c, msgs, until="Z", count=1, kind="q"):
    return {"c": c, "msgs": msgs, "until": until, "count": count, "kind": kind}


def gen_program(rng, two_servers, nreq, tag, burst=False, clients=("c1",)):
    """list of requests; every statement carries a unique tag so that it can be traced"""
    out = []
    n = [0]

    def t():
        n[0] += 1
        return "/*%s_%d*/" % (tag, n[0])
    c = clients[0]
    role = "primary"
    while len(out) < nreq:
        k = rng.random()
        if two_servers and k < 0.14:
            role = "replica" if role == "primary" else "primary"
            out.append(req(c, [Q("SET SERVER ROLE TO '%s'" % role)], kind="role"))
        elif k < 0.40:
            out.append(req(c, [Q("SELECT %d %s" % (rng.randint(0, 999), t()))]))
        elif k < 0.52:
            out.append(req(c, [Q("BEGIN %s" % t())], kind="txn"))
            failing = rng.random() < 0.3
            for k_ in range(rng.randint(1, 3)):
                if failing and k_ == 0:
                    out.append(req(c, [Q("INSERT INTO t VALUES (1) /*mock: error*/ %s" % t())], kind="txn"))   # ReadyForQuery 'E'
                else:
                    out.append(req(c, [Q("%s %s" % (rng.choice(["SELECT %d" % rng.randint(0, 999), "INSERT INTO t VALUES (%d)" % rng.randint(0, 99)]), t()))], kind="txn"))
            out.append(req(c, [Q(rng.choice(["COMMIT", "ROLLBACK"]) + " " + t())], kind="txn"))
        elif k < 0.60:
            if rng.random() < 0.4:
                out.append(req(c, [Q("PREPARE pq%d AS SELECT 1 %s" % (n[0], t()))], kind="prepare"))
            else:
                out.append(req(c, [Q("SET statement_timeout TO %d %s" % (rng.randint(1, 9) * 1000, t()))], kind="set"))
        elif k < 0.74:
            nm = rng.choice(["", "", "s%d" % rng.randint(1, 3)])
            msgs = [{"t": "P", "name": nm, "sql": "SELECT %d %s" % (rng.randint(0, 999), t())}, {"t": "B", "portal": "", "name": nm}]
            if rng.random() < 0.5:
                msgs.append({"t": "D", "kind": "P", "name": ""})
            msgs += [{"t": "E", "portal": ""}, {"t": "S"}]
            out.append(req(c, msgs, until="Z", kind="ext"))
        elif k < 0.82:
            out.append(req(c, [Q("COPY t FROM STDIN %s" % t())], until="GZ", kind="copy"))
            data = [{"t": "d", "data": "row%d\n" % i + "z" * rng.choice([0, 10, 3000, 9000])} for i in range(rng.randint(1, 4))]
            out.append(req(c, data + [{"t": "c"}], until="Z", kind="copy"))
        elif k < 0.88:
            out.append(req(c, [Q("SELECT 1 /*%s*/ %s" % ("x" * rng.choice([8200, 9000, 20000]), t()))], kind="big"))
        elif k < 0.93:
            out.append(req(c, [Q("SELECT 1 /*mock: error*/ %s" % t())], kind="err"))
        elif k < 0.97:
            out.append(req(c, [Q("SELECT 1 /*mock: rows=40, size=400*/ %s" % t())], kind="bigreply"))
        else:
            m = rng.randint(15, 22)
            out.append(req(c, [Q("SELECT %d %s" % (i, t())) for i in range(m)], until="Z", count=m, kind="burst"))
    if burst:
        m = rng.randint(15, 24)
        out.insert(rng.randint(0, len(out)), None)  # placeholder replaced below (keeps transactions intact only at top level)
        i = out.index(None)
        # never inside a transaction: move the burst in front of the program if it landed in one
        depth = 0
        for r in out[:i]:
            if r and r["kind"] == "txn" and r["msgs"][0]["sql"].startswith("BEGIN"):
                depth += 1
            if r and r["kind"] == "txn" and (r["msgs"][0]["sql"].startswith("COMMIT") or r["msgs"][0]["sql"].startswith("ROLLBACK")):
                depth -= 1
        out.pop(i)
        b = req(c, [Q("SELECT %d %s" % (j, t())) for j in range(m)], until="Z", count=m, kind="burst")
        if depth == 0 and not (i > 0 and out[i - 1]["kind"] == "copy" and out[i - 1]["until"] == "GZ"):
            out.insert(i, b)
        else:
            out.insert(0, b)
    return out


def gen_schedule(rng, mirrors, nreq, fault):
    """[(before request index, backend, mode, slow_ms)]: the fault from the start or switched on
    later, possibly switched off / replaced again."""
    sched = []
    for j, (b, tgt) in enumerate(mirrors):
        f = fault if j == 0 else rng.choice(FAULTS + ["normal", "normal"])
        shape = rng.choice(["from_start", "later", "from_start_then_normal", "later_then_normal", "flap"])
        slow = rng.choice([60, 150, 400])
        if shape in ("from_start", "from_start_then_normal", "flap"):
            sched.append((0, b, f, slow))
        if shape in ("later", "later_then_normal"):
            sched.append((rng.randint(1, max(1, nreq - 1)), b, f, slow))
        if shape in ("from_start_then_normal", "later_then_normal"):
            at = (sched[-1][0] if sched else 0) + rng.randint(1, max(1, nreq // 2))
            sched.append((min(at, nreq), b, "normal", slow))
        if shape == "flap":
            at = 0
            for _ in range(rng.randint(2, 4)):
                at += rng.randint(1, max(1, nreq // 3))
                sched.append((min(at, nreq), b, rng.choice(FAULTS + ["normal"]), slow))
    return sorted(sched, key=lambda x: x[0])


def build_scenario(cfg, program, sched, with_mirrors, tail_ms=150, extra_tail=None, app=None):
    clients = []
    steps = []
    for r in program:
        if r["c"] not in clients:
            clients.append(r["c"])
    # faults "from the start" are in place (listener really closed, ...) before pgcat is first used
    for at, b, mode, slow in sched:
        if at == 0 and b != "_sleep":
            steps.append({"op": "backend", "b": b, "mode": mode, "slow_ms": slow})
    steps.append({"op": "sleep", "ms": 30})
    for c in clients:
        if c == "c9":
            continue   # connects later (after the server connection of c1 was closed by the server)
        params = {"user": "u", "database": "db"}
        if app:
            params["application_name"] = app   # makes pgcat send its own SET application_name (sync_parameters)
        steps.append({"op": "connect", "c": c, "params": params, "password": "pw"})
    prev = None
    for i, r in enumerate(program):
        if r["c"] == "c9" and not any(st.get("op") == "connect" and st.get("c") == "c9" for st in steps):
            steps.append({"op": "connect", "c": "c9", "params": {"user": "u", "database": "db"}, "password": "pw"})
        if prev is not None and prev != r["c"]:
            # another client takes over: let pgcat finish the check-in of the previous one (it answers the client
            # BEFORE checkin_cleanup), otherwise which server connection the next client gets is a race
            steps.append({"op": "sleep", "ms": 40})
        prev = r["c"]
        for at, b, mode, slow in sched:
            if at == i and i > 0:
                if b == "_sleep":
                    steps.append({"op": "sleep", "ms": mode})
                else:
                    steps.append({"op": "backend", "b": b, "mode": mode, "slow_ms": slow})
        steps.append({"op": "send", "c": r["c"], "msgs": r["msgs"]})
        steps.append({"op": "recv", "c": r["c"], "until": r["until"], "count": r["count"], "timeout_ms": 3000, "label": "r%d" % i})
    for at, b, mode, slow in sched:
        if at >= len(program) and b != "_sleep":
            steps.append({"op": "backend", "b": b, "mode": mode, "slow_ms": slow})
    steps += (extra_tail or [])
    steps += [{"op": "sleep", "ms": tail_ms}, {"op": "snapshot", "label": "end"}]
    return {"backends": [{"name": b} for b in ALL_BACKENDS], "toml": make_toml(cfg, with_mirrors), "hex": True, "timing": True, "steps": steps}


# --------------------------------------------------------------------------- observations
def conn_frames(res, backend):
    """{conn id: [(tag, rawhex)]} in arrival order, plus the order in which the connections opened"""
    d, order = {}, []
    for e in res.get("events", []):
        if e.get("who") != backend:
            continue
        if e.get("ev") == "open":
            order.append(e["conn"])
            d.setdefault(e["conn"], [])
        elif e.get("ev") == "msg":
            d.setdefault(e["conn"], []).append((e["tag"], e["detail"].get("raw", "")))
    return d, order


def segments(frames):
    """pgcat's own buffering rule (client.rs, statement caching off): the whole buffers handed to
    Server::send, as lists of frames.  'X' is written by Drop with try_write, not through send."""
    segs, ext, cp, cpn = [], [], [], 0
    for tag, raw in frames:
        if tag == "Q":
            segs.append([(tag, raw)])
        elif tag in "PBDEC":
            ext.append((tag, raw))
        elif tag == "S":
            segs.append(ext + [(tag, raw)])
            ext = []
        elif tag == "d":
            cp.append((tag, raw))
            cpn += len(raw) // 2
            if cpn > FLUSH_THR:
                segs.append(cp)
                cp, cpn = [], 0
        elif tag in "cf":
            segs.append(cp + [(tag, raw)])
            cp, cpn = [], 0
        elif tag == "X":
            pass
        else:
            segs.append([(tag, raw)])
    if ext:
        segs.append(ext)
    if cp:
        segs.append(cp)
    return segs


def match_buffers(mframes, segs, allow_partial_tail):
    """is mframes the concatenation of an in-order subsequence of segs (optionally followed, at the very
    end, by a proper prefix of one later segment: a connection that died inside a buffer)?"""
    n = len(mframes)
    reach = {0}
    for sg in segs:
        if n in reach:
            return True
        new = set(reach)
        for p in reach:
            rest = n - p
            if allow_partial_tail and 0 < rest < len(sg) and sg[:rest] == mframes[p:]:
                return True
            if len(sg) <= rest and mframes[p:p + len(sg)] == sg:
                new.add(p + len(sg))
        reach = new
    return n in reach


def frame_subseq(a, b):
    it = iter(b)
    return all(any(x == y for y in it) for x in a)


def request_latencies(res):
    """[(client, label, ms)]: from the `sent` event of a request to the `recv` event that completes it"""
    out, last_sent = [], {}
    for e in res.get("events", []):
        if e.get("ev") == "sent":
            last_sent[e["who"]] = e.get("t_us", 0)
        elif e.get("ev") == "recv" and e.get("who") in last_sent:
            out.append((e["who"], e.get("label"), (e.get("t_us", 0) - last_sent[e["who"]]) / 1000.0))
    return out


def client_transcript(res):
    """per recv step: (client, label, outcome, exact bytes received)"""
    out = []
    for e in res.get("events", []):
        if e.get("ev") == "recv":
            out.append((e["who"], e.get("label"), e.get("outcome"), e.get("raw")))
        elif e.get("ev") == "startup_done":
            out.append((e["who"], "startup", e.get("outcome"), e.get("auth_ok")))
    return out


def server_transcript(res, servers):
    """what the REAL servers received: per backend, per connection, the exact frames"""
    out = {}
    for b, role in servers:
        d, order = conn_frames(res, b)
        out[b] = [[raw for tag, raw in d[c]] for c in order]
    return out


def check_pair(cfg, program, sched, res_m, res_b):
    """all model-free checks on one (mirrored run, baseline run) pair -> list of (kind, text)"""
    name, servers, mirrors, pool_size = cfg[:4]
    bad = []
    if failed(res_b):
        return [("harness", "run without mirrors: %s" % str(res_b.get("harness_error") or res_b.get("start_error") or "no events")[:300])]
    if failed(res_m):
        if res_m.get("start_error"):
            # the same configuration starts without its [mirrors] section: the mirrors made pgcat refuse to serve
            return [("config-rejected", "pgcat refuses the configuration with mirrors (%s) but accepts it without" % str(res_m.get("start_error"))[:200])]
        return [("harness", "run with mirrors: %s" % str(res_m.get("harness_error") or "no events")[:300])]
    # (i) transcripts
    tm, tb = client_transcript(res_m), client_transcript(res_b)
    if tm != tb:
        for i, (x, y) in enumerate(zip(tm, tb)):
            if x != y:
                bad.append(("transcript", "client %s request %s: with mirrors outcome=%s bytes=%s..., without outcome=%s bytes=%s..." % (x[0], x[1], x[2], str(x[3])[:60], y[2], str(y[3])[:60])))
                break
        else:
            bad.append(("transcript", "number of client receive steps differs: %d vs %d" % (len(tm), len(tb))))
    for who, label, outcome, _ in tm:
        if outcome not in ("ok", None) and label != "startup":
            if (who, label, outcome) in [(a, b, c) for a, b, c, _ in tb]:
                continue
            bad.append(("transcript", "client %s request %s ended with %s in the mirrored run" % (who, label, outcome)))
    sm, sb = server_transcript(res_m, servers), server_transcript(res_b, servers)
    if sm != sb:
        bad.append(("server-bytes", "the frames received by the real servers differ between the mirrored and the plain run: %s vs %s" % (
            {k: [len(c) for c in v] for k, v in sm.items()}, {k: [len(c) for c in v] for k, v in sb.items()})))
    def own(tr):
        return [x for x in (tr or []) if "Invalid pool name" not in x]
    if own(res_m.get("task_results")) != own(res_b.get("task_results")):
        bad.append(("transcript", "pgcat client tasks ended differently: %s vs %s" % (res_m.get("task_results"), res_b.get("task_results"))))
    # latency (coarse): no request may take LAT_BOUND_MS longer than... itself without mirrors
    lb = {(w, l): ms for w, l, ms in request_latencies(res_b)}
    for w, l, ms in request_latencies(res_m):
        if ms > LAT_BOUND_MS and ms > lb.get((w, l), 0) + LAT_BOUND_MS - 100:
            bad.append(("latency", "client %s request %s took %.0f ms with mirrors (%.0f ms without)" % (w, l, ms, lb.get((w, l), -1))))
    # (ii) mirrors
    for b in ALL_BACKENDS:
        if b.startswith("m") and b not in [x for x, _ in mirrors]:
            d, order = conn_frames(res_m, b)
            if order:
                bad.append(("mirror", "backend %s is not configured as a mirror but was connected to" % b))
    for j, (mb, tgt) in enumerate(mirrors):
        md, morder = conn_frames(res_m, mb)
        if tgt >= len(servers):
            if morder:
                bad.append(("mirror", "mirror %s targets index %d which has no server, yet pgcat connected to it" % (mb, tgt)))
            continue
        tb_name = servers[tgt][0]
        pd, porder = conn_frames(res_m, tb_name)
        psegs = {c: segments(pd[c]) for c in porder}
        closes = {e["conn"]: e.get("why") for e in res_m["events"] if e.get("who") == mb and e.get("ev") == "close"}
        for mc in morder:
            fr = list(md[mc])
            # whole frames only: every logged frame is tag + length + exactly length-4 bytes, and the connection did
            # not end inside a frame
            for t, raw in fr:
                if len(raw) < 10 or int(raw[2:10], 16) + 1 != len(raw) // 2:
                    bad.append(("mirror-partial", "mirror %s conn %d: a logged frame is not whole (%s...)" % (mb, mc, raw[:24])))
                    break
            if closes.get(mc) in ("eof in header", "eof in body"):
                bad.append(("mirror-partial", "mirror %s conn %d: pgcat closed the connection inside a frame (%s)" % (mb, mc, closes.get(mc))))
            clean_end = bool(fr) and fr[-1][0] == "X"
            if clean_end:
                fr = fr[:-1]
            if any(t == "X" for t, _ in fr):
                bad.append(("mirror", "mirror %s conn %d: Terminate in the middle of the stream" % (mb, mc)))
                continue
            hit = None
            for pc in porder:
                if not frame_subseq(fr, [f for f in pd[pc] if f[0] != "X"]):
                    continue
                if match_buffers(fr, psegs[pc], allow_partial_tail=not clean_end):
                    hit = pc
                    break
            if hit is None:
                # say which weaker statement fails
                anyframe = any(frame_subseq(fr, [f for f in pd[pc] if f[0] != "X"]) for pc in porder)
                others = [ob for ob, _ in servers if ob != tb_name]
                foreign = [raw for t, raw in fr if any(raw in [r for _, r in fs] for ob in others for fs in conn_frames(res_m, ob)[0].values())
                           and not any(raw in [r for _, r in pd[pc]] for pc in porder)]
                if foreign:
                    bad.append(("mirror-foreign", "mirror %s (target index %d = %s) received a request that was sent to another server: %s" % (mb, tgt, tb_name, bytes.fromhex(foreign[0])[:80])))
                elif not anyframe:
                    known = {raw for pc in porder for _, raw in pd[pc]}
                    odd = [raw for _, raw in fr if raw not in known]
                    small = [raw for pc in porder for _, raw in pd[pc] if len(raw) < 400]
                    if odd and any(k in o[10:] for o in odd for k in small):
                        bad.append(("mirror-truncated", "mirror %s conn %d: a frame the mirror parsed (declared length %d) contains whole later requests of %s: an earlier frame was cut short and its length field runs over what followed" % (
                            mb, mc, int(odd[0][2:10], 16), tb_name)))
                    bad.append(("mirror-subseq", "mirror %s conn %d: %d frames are not an in-order subsequence of what any connection of %s received (%s)" % (
                        mb, mc, len(fr), tb_name, ("first frame the server never got: %r" % bytes.fromhex(odd[0])[:90]) if odd else "order differs")))
                else:
                    bad.append(("mirror-partial", "mirror %s conn %d: frames are a subsequence of %s's, but not a sequence of WHOLE send buffers (%s)" % (mb, mc, tb_name, "".join(t for t, _ in fr)[:120])))
        # across reconnects: when the target has a single connection, the mirror task is unique and
        # the concatenation over its connections must still be in order
        if len(porder) == 1 and len(morder) > 1:
            allfr = []
            for mc in morder:
                fr = [f for f in md[mc] if f[0] != "X"]
                allfr += fr
            if not frame_subseq(allfr, [f for f in pd[porder[0]] if f[0] != "X"]):
                bad.append(("mirror-subseq", "mirror %s: over its %d successive connections the frames are not an in-order subsequence of %s's" % (mb, len(morder), tb_name)))
    return bad


def mirror_counts(cfg, res_m):
    name, servers, mirrors, pool_size = cfg[:4]
    out = {}
    for mb, tgt in mirrors:
        md, morder = conn_frames(res_m, mb)
        out[mb] = {"conns": len(morder), "frames": sum(len([f for f in md[c] if f[0] != "X"]) for c in morder)}
    for b, _ in servers:
        pd, porder = conn_frames(res_m, b)
        out[b] = {"conns": len(porder), "frames": sum(len([f for f in pd[c] if f[0] != "X"]) for c in porder)}
    return out


# --------------------------------------------------------------------------- model differential
def model_expr(cfg, plan):
    """plan: list of ('startup', idx) | ('send', cid, bufid) | ('env', cid, j, e) -> Gallina expression giving,
    per connection, per attached mirror: (mirror position, [buffer ids handed])"""
    ops = []
    for p in plan:
        if p[0] == "startup":
            ops.append("Startup 0 %d" % p[1])
        elif p[0] == "send":
            ops.append("Send %d [%d%%N] true" % (p[1], p[2]))
        elif p[0] == "env":
            ops.append("Env %d %d %s" % (p[1], p[2], p[3]))
    return ("map (fun c => (c_index c, map (fun m => (mc_idx m, map (fun x => snd x) (handed (mc_chan m)))) (c_chans c))) "
            "(conns (runw %s world0 [%s]))" % (coq_cfg(cfg), "; ".join(ops)))


PREAMBLE = "From PV Require Import Gen.MirrorConsts Mirror.Model.\nFrom Coq Require Import List NArith. Import ListNotations."


def plan_for(cfg, res_m, mode, capacity, stalled=None):
    """Build the model run that corresponds to a deterministic wire run: connections in the order they
    were opened, one Send per whole buffer the real server received (global order), and the mirror
    schedule: 'healthy' = connected at once, every buffer delivered right away; 'outage' = nothing
    delivered until the end, then reconnect + deliver everything queued; 'stall' = like healthy, except that the mirror
    at configuration position `stalled` never connects and never takes anything from its channel."""
    name, servers, mirrors, pool_size = cfg[:4]
    opens, sends = [], []
    cid_of = {}
    seg_list = {}
    for bi, (b, _) in enumerate(servers):
        pd, porder = conn_frames(res_m, b)
        for c in porder:
            seg_list[(b, c)] = segments(pd[c])
    # global order of opens and of the FIRST frame of each buffer
    firstseq = []
    for e in res_m["events"]:
        if e.get("ev") == "open" and e.get("who") in [b for b, _ in servers]:
            opens.append((e["who"], e["conn"]))
    for k, (b, c) in enumerate(opens):
        cid_of[(b, c)] = k
    # order of buffers: by seq of their first frame
    seqs = {}
    for e in res_m["events"]:
        if e.get("ev") == "msg" and (e.get("who"), e.get("conn")) in cid_of and e["tag"] != "X":
            seqs.setdefault((e["who"], e["conn"]), []).append(e["seq"])
    for key, sl in seg_list.items():
        pos = 0
        for i, sg in enumerate(sl):
            firstseq.append((seqs[key][pos], key, i))
            pos += len(sg)
    firstseq.sort()
    plan = [("startup", [bb for bb, _ in servers].index(b)) for b, c in opens]
    nm = {}
    for k, (b, c) in enumerate(opens):
        idx = [bb for bb, _ in servers].index(b)
        nm[k] = len([1 for mb, t in mirrors if t == idx])
    pos_of = {}
    for k, (b, c) in enumerate(opens):
        idx = [bb for bb, _ in servers].index(b)
        pos_of[k] = [p_ for p_, (mb, t) in enumerate(mirrors) if t == idx]
    if mode in ("healthy", "stall"):
        for k in nm:
            for j in range(nm[k]):
                if not (mode == "stall" and pos_of[k][j] == stalled):
                    plan.append(("env", k, j, "Reconnect"))
    for _, key, i in firstseq:
        k = cid_of[key]
        plan.append(("send", k, i))
        if mode in ("healthy", "stall"):
            for j in range(nm[k]):
                if not (mode == "stall" and pos_of[k][j] == stalled):
                    plan.append(("env", k, j, "Deliver"))
    if mode == "outage":
        for k in nm:
            for j in range(nm[k]):
                plan.append(("env", k, j, "Reconnect"))
                for _ in range(capacity + 2):
                    plan.append(("env", k, j, "Deliver"))
    return plan, cid_of, seg_list


def compare_model(cfg, res_m, model_val, cid_of, seg_list, skip=None):
    """model_val: [(server index, [(mirror pos, [[id]...])])] per connection, in cid order"""
    name, servers, mirrors, pool_size = cfg[:4]
    bad = []
    inv = {v: k for k, v in cid_of.items()}
    if len(model_val) != len(inv):
        return ["model has %d connections, implementation %d" % (len(model_val), len(inv))]
    for k, (idx, chans) in enumerate(model_val):
        b, c = inv[k]
        if [bb for bb, _ in servers].index(b) != idx:
            bad.append("connection %d: model server index %d, implementation %s" % (k, idx, b))
            continue
        want_mirrors = [j for j, (mb, t) in enumerate(mirrors) if t == idx]
        if [p for p, _ in chans] != want_mirrors:
            bad.append("server index %d: model attaches mirrors %s, configuration order gives %s" % (idx, [p for p, _ in chans], want_mirrors))
            continue
        for pos, ids in chans:
            if pos == skip:
                continue        # the stalled mirror: what (if anything) it logged is timing dependent; check_pair bounds it
            mb = mirrors[pos][0]
            md, morder = conn_frames(res_m, mb)
            got = []
            for mc in morder:
                got += [f for f in md[mc] if f[0] != "X"]
            # with one connection per server the mirror's traffic is this connection's; otherwise match per mirror connection
            want = []
            for i in ids:
                want += seg_list[(b, c)][i[0]]
            if len([1 for kk in inv if inv[kk][0] == b]) == 1:
                if got != want:
                    bad.append("mirror %s of %s conn %d: model hands over buffers %s (%d frames), the mirror logged %d frames" % (mb, b, c, [i[0] for i in ids], len(want), len(got)))
            else:
                per = [[f for f in md[mc] if f[0] != "X"] for mc in morder]
                if want not in per:
                    bad.append("mirror %s of %s conn %d: no mirror connection carries exactly the model's buffers %s" % (mb, b, c, [i[0] for i in ids]))
    return bad


# --------------------------------------------------------------------------- mirror-only defects (confirmed, reported as known findings)
def desync_scenario(with_fault):
    """C20-M1.  The mirror answers `SELECT ... <payload>` with T + D(... payload ...) + C + Z written in two TCP
    pieces 400 ms apart, the cut is inside the DataRow right before the payload.  The next request arrives in
    between: select! drops the half-read recv future.  The payload is then read as a frame header:
    'E' + C3 BF C3 BF = a negative length."""
    cfg = CFG["one/m0>0"]
    payload = "Eÿÿxxxxxxxxxxxxxxxxxxxxxxxxxxxxxxxxxxxxxxxx"
    sql1 = "SELECT 1 /*" + payload + "*/"
    # offset of the payload inside the mirror's flush: RowDescription (100 bytes) + D header(5) + ncols(2)
    # + len+"m0" + len+"1" + len + sql text up to the payload
    cut = 100 + 5 + 2 + 4 + 2 + 4 + 1 + 4 + len("SELECT 1 /*".encode())
    program = [req("c1", [Q(sql1)])] + [req("c1", [Q("SELECT %d /*after_%d*/" % (i, i))]) for i in range(2, 7)]
    steps = [{"op": "connect", "c": "c1", "params": {"user": "u", "database": "db"}, "password": "pw"}]
    if with_fault:
        steps.append({"op": "backend", "b": "m0", "reply_segs": [cut], "reply_segd": 400})
    for i, r in enumerate(program):
        steps.append({"op": "send", "c": "c1", "msgs": r["msgs"]})
        steps.append({"op": "recv", "c": "c1", "until": "Z", "count": 1, "timeout_ms": 3000, "label": "r%d" % i})
        if i == 0:
            steps.append({"op": "sleep", "ms": 60})
        if i == 1:
            steps.append({"op": "backend", "b": "m0", "reply_segs": []})
            steps.append({"op": "sleep", "ms": 600})
    steps += [{"op": "sleep", "ms": 300}, {"op": "snapshot", "label": "end"}]
    return cfg, program, {"backends": [{"name": b} for b in ALL_BACKENDS], "toml": make_toml(cfg, True), "hex": True, "timing": True, "steps": steps}


def zombie_scenario():
    """C20-M2.  Mirror unreachable; the mirrored server connection is created, used, and closed (the server closes
    it: /*mock: close*/); 600 ms later the mirror comes up: the task of the dead connection connects to it."""
    cfg = CFG["one/m0>0"]
    steps = [{"op": "backend", "b": "m0", "mode": "down_held"}, {"op": "sleep", "ms": 30},
             {"op": "connect", "c": "c1", "params": {"user": "u", "database": "db"}, "password": "pw"}]
    for i in range(3):
        steps += [{"op": "send", "c": "c1", "msgs": [Q("SELECT %d /*z_%d*/" % (i, i))]}, {"op": "recv", "c": "c1", "until": "Z", "timeout_ms": 3000, "label": "r%d" % i}]
    steps += [{"op": "send", "c": "c1", "msgs": [Q("SELECT 1 /*mock: close*/ /*z_close*/")]}, {"op": "recv", "c": "c1", "until": "Z", "timeout_ms": 3000, "label": "rclose"},
              {"op": "sleep", "ms": 600}, {"op": "snapshot", "label": "primary connection gone"},
              {"op": "backend", "b": "m0", "mode": "normal"}, {"op": "sleep", "ms": 1200}, {"op": "snapshot", "label": "end"}]
    return cfg, {"backends": [{"name": b} for b in ALL_BACKENDS], "toml": make_toml(cfg, True), "hex": True, "timing": True, "steps": steps}


def retarget_scenario():
    """a live reload that changes ONLY a mirror's mirroring_target_index (0 -> 1): afterwards the mirror must receive the
    requests of the NEW server and none of the old one (C14 owns the reload decision; this is its C20 side)"""
    before = ("two/m0>0", [("p0", "primary"), ("r1", "replica")], [("m0", 0)], 1)
    after = ("two/m0>1", [("p0", "primary"), ("r1", "replica")], [("m0", 1)], 1)
    steps = [{"op": "connect", "c": "c1", "params": {"user": "u", "database": "db"}, "password": "pw"}]

    def rt(c, sql, label):
        return [{"op": "send", "c": c, "msgs": [Q(sql)]}, {"op": "recv", "c": c, "until": "Z", "timeout_ms": 3000, "label": label}]
    steps += rt("c1", "SELECT 1 /*rt_A_primary*/", "a0") + rt("c1", "SET SERVER ROLE TO 'replica'", "a1") + rt("c1", "SELECT 2 /*rt_A_replica*/", "a2") + rt("c1", "SET SERVER ROLE TO 'primary'", "a3")
    steps += [{"op": "sleep", "ms": 100}, {"op": "write_config", "toml": make_toml(after, True)}, {"op": "reload"}, {"op": "sleep", "ms": 150},
              {"op": "connect", "c": "c3", "params": {"user": "u", "database": "db"}, "password": "pw"}]
    for c in ("c1", "c3"):
        steps += rt(c, "SELECT 3 /*rt_B_primary_%s*/" % c, "b0" + c) + rt(c, "SET SERVER ROLE TO 'replica'", "b1" + c) + rt(c, "SELECT 4 /*rt_B_replica_%s*/" % c, "b2" + c) + rt(c, "SET SERVER ROLE TO 'primary'", "b3" + c)
    steps += [{"op": "sleep", "ms": 300}, {"op": "snapshot", "label": "end"}]
    return {"backends": [{"name": b} for b in ALL_BACKENDS], "toml": make_toml(before, True), "hex": True, "timing": True, "steps": steps}


def continuity_program(tag, two_servers):
    """everything that leaves a server connection in a state Server::is_unclean() reports, as multi-request sequences"""
    n = [0]

    def t():
        n[0] += 1
        return "/*%s_%d*/" % (tag, n[0])
    c = "c1"

    def block():
        return [
            req(c, [Q("BEGIN %s" % t())], kind="txn"), req(c, [Q("INSERT INTO accounts VALUES (1, 100) %s" % t())], kind="txn"),
            req(c, [Q("SELECT 1 %s" % t())], kind="txn"), req(c, [Q("COMMIT %s" % t())], kind="txn"),
            req(c, [Q("SELECT 2 %s" % t())]),
            req(c, [Q("BEGIN %s" % t())], kind="txn"), req(c, [Q("INSERT INTO accounts VALUES (2, 1) /*mock: error*/ %s" % t())], kind="txn"),
            req(c, [Q("SELECT 3 %s" % t())], kind="txn"), req(c, [Q("ROLLBACK %s" % t())], kind="txn"),
            req(c, [Q("SET statement_timeout TO 5000 %s" % t())], kind="set"), req(c, [Q("SELECT 4 %s" % t())]),
            req(c, [Q("PREPARE px%d AS SELECT 1 %s" % (n[0], t()))], kind="prepare"), req(c, [Q("SELECT 5 %s" % t())]),
            req(c, [Q("COPY t FROM STDIN %s" % t())], until="GZ", kind="copy"),
            req(c, [{"t": "d", "data": "row1\n"}, {"t": "d", "data": "row2\n"}, {"t": "c"}], until="Z", kind="copy"),
            req(c, [Q("COPY t TO STDOUT /*mock: rows=3*/ %s" % t())], kind="copyout"),
            req(c, [Q("SELECT 1 /*mock: rows=40, size=400*/ %s" % t())], kind="bigreply"),
            req(c, [Q("BEGIN %s" % t())], kind="txn"),
            req(c, [{"t": "P", "name": "", "sql": "UPDATE accounts SET balance = 1 %s" % t()}, {"t": "B", "portal": "", "name": ""}, {"t": "E", "portal": ""}, {"t": "S"}], until="Z", kind="ext"),
            req(c, [Q("COMMIT %s" % t())], kind="txn"),
            req(c, [Q("SELECT 6 %s" % t())]),
        ]
    prog = block()
    if two_servers:
        prog += [req(c, [Q("SET SERVER ROLE TO 'replica'")], kind="role")] + block() + [req(c, [Q("SET SERVER ROLE TO 'primary'")], kind="role"), req(c, [Q("SELECT 7 %s" % t())])]
    return prog


def sql_of(raw):
    b = bytes.fromhex(raw)
    return (chr(b[0]) + ":" + b[5:45].split(b"\0")[0].decode("latin1")) if b[:1] in (b"Q", b"P") else chr(b[0])


def continuity(cfg, res_m, skip=()):
    """model-free: while nothing fails a mirror has ONE connection per connection of the server it mirrors, it is never
    sent a Terminate while that server connection lives, and each mirror connection carries the statements of exactly one
    server connection.  -> (problems, stats)"""
    name, servers, mirrors, pool_size = cfg[:4]
    probs, st = [], {"mirror_connections": 0, "server_connections_mirrored": 0, "terminates_seen_by_mirrors": 0, "statements_per_mirror_connection": []}
    for pos, (mb, tgt) in enumerate(mirrors):
        if pos in skip or tgt >= len(servers):
            continue
        tb = servers[tgt][0]
        pd, porder = conn_frames(res_m, tb)
        md, morder = conn_frames(res_m, mb)
        pclosed = len([e for e in res_m["events"] if e.get("who") == tb and e.get("ev") == "close"])
        xs = sum(1 for mc in morder for tg, _ in md[mc] if tg == "X")
        mclosed = len([e for e in res_m["events"] if e.get("who") == mb and e.get("ev") == "close"])
        st["mirror_connections"] += len(morder)
        st["server_connections_mirrored"] += len(porder)
        st["terminates_seen_by_mirrors"] += xs
        st["statements_per_mirror_connection"] += [len([f for f in md[mc] if f[0] != "X"]) for mc in morder]
        hist = "; ".join("%s conn %d: [%s]" % (mb, mc, ", ".join(sql_of(r) for _, r in md[mc])[:400]) for mc in morder)
        if len(morder) != len(porder):
            probs.append("mirror %s was connected to %d times for %d connection(s) of %s although nothing failed: %s" % (mb, len(morder), len(porder), tb, hist))
        elif max(xs, mclosed) > pclosed:
            probs.append("mirror %s received %d Terminate / %d of its connections ended while only %d connection(s) of %s ended: %s" % (mb, xs, mclosed, pclosed, tb, hist))
        else:
            left = [[f for f in pd[pc] if f[0] != "X"] for pc in porder]
            for mc in morder:
                fr = [f for f in md[mc] if f[0] != "X"]
                if fr in left:
                    left.remove(fr)
                else:
                    probs.append("mirror %s conn %d does not carry the statements of exactly one connection of %s: %s" % (mb, mc, tb, hist))
                    break
    return probs, st


def outage_program(rng, capacity, with_txn):
    n = capacity + rng.randint(2, 6)
    prog = []
    for i in range(n):
        if with_txn and i == capacity - 1:
            prog.append(req("c1", [Q("BEGIN /*o_%d*/" % i)], kind="txn"))
        elif with_txn and i == capacity:
            prog.append(req("c1", [Q("COMMIT /*o_%d*/" % i)], kind="txn"))
        else:
            prog.append(req("c1", [Q("SELECT %d /*o_%d*/" % (i, i))]))
    return prog


def bigstmt_case(i, size, count):
    """statements of `size` bytes to a mirror that stops reading (the mirror task ends up blocked inside ONE write, for
    longer than a second), then reads again; afterwards small requests follow on the same mirror connection"""
    cfg = CFG["one/m0>0"]
    program = [req("c1", [Q("SELECT 0 /*bs%d_first*/" % i)])]
    for k in range(count):
        program.append(req("c1", [Q("SELECT %d /*%s*/ /*bs%d_%d*/" % (k, "y" * size, i, k))], kind="bigstmt"))
    for k in range(3):
        program.append(req("c1", [Q("SELECT %d /*bs%d_mid_%d*/" % (k, i, k))]))
    n = len(program)
    for k in range(5):
        program.append(req("c1", [Q("SELECT %d /*bs%d_after_%d*/" % (k, i, k))]))
    sched = [(1, "_sleep", 80, 0), (1, "m0", "noread", 0), (n, "_sleep", 1500, 0), (n, "m0", "normal", 0)]
    return {"kind": "bigstmt", "cfg": cfg, "program": program, "sched": sched, "size": size, "count": count}


LAT_KINDS = ["down_held", "refuse", "hang_startup", "hang", "noread"]
LAT_N = 20


def latency_scenario(kind, workers):
    """ONE process: first LAT_N small round trips through a pool WITHOUT mirrors (no mirror task exists yet), then the
    mirrored pool is brought up (2 server connections x 2 mirrors = 4 mirror tasks), the fault is held for longer than
    connect_timeout, and the same LAT_N round trips go through the mirrored pool while it lasts."""
    plain = {"opts": {"default_role": "primary", "connect_timeout": 400}, "users": [{"pool_size": 2}], "shards": [{"servers": [["p0", "primary"]]}]}
    mirrored = {"opts": {"default_role": "primary", "connect_timeout": 400}, "users": [{"pool_size": 2}], "shards": [{"servers": [["p0", "primary"]], "mirrors": [["m0", 0], ["m1", 0]]}]}
    toml = W.make_toml(general={"connect_timeout": 400, "healthcheck_timeout": 400, "healthcheck_delay": 600000}, pools={"plain": plain, "db": mirrored})
    steps = [{"op": "connect", "c": "b1", "params": {"user": "u", "database": "plain"}, "password": "pw"},
             {"op": "send", "c": "b1", "msgs": [Q("SELECT 0 /*warm*/")]}, {"op": "recv", "c": "b1", "until": "Z", "timeout_ms": 2000, "label": "warm"}]
    for i in range(LAT_N):
        steps += [{"op": "send", "c": "b1", "msgs": [Q("SELECT %d /*lat_b%d*/" % (i, i))]}, {"op": "recv", "c": "b1", "until": "Z", "timeout_ms": 2000, "label": "b%d" % i},
                  {"op": "sleep", "ms": 20}]
    early = kind in ("down_held", "refuse", "hang_startup")
    fault = [{"op": "backend", "b": "m0", "mode": kind}, {"op": "backend", "b": "m1", "mode": kind}]
    if early:
        steps += fault + [{"op": "sleep", "ms": 30}]
    steps += [{"op": "connect", "c": "c2", "params": {"user": "u", "database": "db"}, "password": "pw"},
              {"op": "connect", "c": "c1", "params": {"user": "u", "database": "db"}, "password": "pw"},
              {"op": "send", "c": "c2", "msgs": [Q("BEGIN /*lat_hold*/")]}, {"op": "recv", "c": "c2", "until": "Z", "timeout_ms": 4000, "label": "hold"},
              {"op": "send", "c": "c1", "msgs": [Q("SELECT 0 /*lat_first*/")]}, {"op": "recv", "c": "c1", "until": "Z", "timeout_ms": 4000, "label": "first"}]
    if not early:
        steps += [{"op": "sleep", "ms": 100}] + fault
    steps += [{"op": "sleep", "ms": 700}]
    for i in range(LAT_N):
        steps += [{"op": "send", "c": "c1", "msgs": [Q("SELECT %d /*lat_f%d*/" % (i, i))]}, {"op": "recv", "c": "c1", "until": "Z", "timeout_ms": 2000, "label": "f%d" % i},
                  {"op": "sleep", "ms": 20}]
    steps += [{"op": "send", "c": "c2", "msgs": [Q("COMMIT /*lat_release*/")]}, {"op": "recv", "c": "c2", "until": "Z", "timeout_ms": 4000, "label": "release"}]
    return {"backends": [{"name": b} for b in ALL_BACKENDS], "toml": toml, "timing": True, "workers": workers, "steps": steps}


def median(xs):
    xs = sorted(xs)
    return xs[len(xs) // 2] if len(xs) % 2 else (xs[len(xs) // 2 - 1] + xs[len(xs) // 2]) / 2.0


def latency_eval(res):
    """-> dict(base_median, fault_median, ...) in ms; a round trip that did not complete counts with its timeout"""
    if failed(res):
        return None
    lat = {}
    outcome = {e.get("label"): e.get("outcome") for e in res["events"] if e.get("ev") == "recv"}
    for w, l, ms in request_latencies(res):
        lat[l] = ms if outcome.get(l) == "ok" else max(ms, 2000.0)
    b = [lat.get("b%d" % i, 2000.0) for i in range(LAT_N)]
    f = [lat.get("f%d" % i, 2000.0) for i in range(LAT_N)]
    return {"base_median_ms": round(median(b), 3), "fault_median_ms": round(median(f), 3), "base_max_ms": round(max(b), 2), "fault_max_ms": round(max(f), 2),
            "fault_over_150ms": sum(1 for x in f if x > 150), "base_over_150ms": sum(1 for x in b if x > 150),
            "fault_incomplete": sum(1 for i in range(LAT_N) if outcome.get("f%d" % i) != "ok")}


def latency_verdict(m):
    return m is not None and m["fault_median_ms"] > 10 * m["base_median_ms"] and m["fault_median_ms"] > 150


# --------------------------------------------------------------------------- the check
def check(run):
    quick = run.tier == "quick"
    rng = run.rng
    run.assumptions += [
        "Coq 8.16.1 kernel + vm_compute; Print Assumptions: closed under the global context for every theorem",
        "coq/Mirror/Model.v is a hand transcription of mirrors.rs, Server::send/startup/Drop and the attachment loop of pool.rs (validated per run over the wire); "
        "tokio mpsc semantics (bounded FIFO, try_send never waits, capacity()==0 iff full), bb8 (max_size 1, get() waits at most connection_timeout) and tokio task isolation are environment assumptions",
        "translate/mirror_consts.py extracts channel::<Bytes>(N) and checks the shape facts (plain fn + try_send, mirror_send first in Server::send, attachment by index equality, "
        "no blocking call in mirrors.rs, the task's write awaited to its end or the connection marked bad, no plugins for the mirror's own pool) on the current source",
        "c20_client_path_independent models a mirror-task step as taking nothing from the client path; that a waiting mirror task holds no runtime worker is observed by the round-trip monitor "
        "(median of 20 round trips with 1 and 2 workers, against the same script without mirrors in the same process), not proved",
        "buffer boundaries on the wire are reconstructed with pgcat's own buffering rule (Query alone / extended batch up to Sync / CopyData up to >8196 bytes or CopyDone); statement caching off",
        "mock backends (harness/src/mockpg.rs) play the real servers and the mirrors; 'no added waiting' is checked only against a coarse bound (%d ms per request), not as wall-clock latency" % LAT_BOUND_MS,
    ]
    run.cov["trusted_base"] = ["coqc 8.16.1 kernel", "vm_compute", "translate/mirror_consts.py", "hand-written model coq/Mirror/Model.v",
                               "harness (wire.rs, mockpg.rs, client.rs, pooler.rs)", "props/c20.py (segmentation rule, monitors)",
                               "tokio mpsc / bb8 / tokio task isolation (environment)", "Print Assumptions: Closed under the global context (all theorems)"]
    tr_ok, tr_msg = translate(run)
    proof_ok, log = (False, tr_msg)
    if tr_ok:
        proof_ok, log = vlib.prove(run, COQ_FILES, "Mirror/Props.v")
    run.log("translate ok=%s (%s) proof ok=%s" % (tr_ok, tr_msg, proof_ok))
    ok, blog, bins = vlib.cargo_build(["wire"])
    if not ok:
        run.violation("tie-broken", "wire harness does not build against /repo", {"correspondence": "wire harness build", "log": blog[-3000:]}, found_input=False)
        return
    # self-test hook: C20_WIRE=<path> runs the scenarios against another build of the wire harness (a scratch copy
    # of the sources with a seeded change); never set in normal operation
    wire = os.environ.get("C20_WIRE") or bins["wire"]
    capacity = gen_capacity() if tr_ok else 10
    run.cov["channel_capacity_from_source"] = capacity

    # ---- cases
    cases = []   # dict(kind, cfg, program, sched, tail)
    nfault = 60 if quick else 1000
    for i in range(nfault):
        cfg = CONFIGS[i % len(CONFIGS)] if i < 2 * len(CONFIGS) else rng.choice(CONFIGS)
        two = len(cfg[1]) == 2
        clients = ("c1",)
        program = gen_program(rng, two, rng.randint(5, 11), "f%d" % i, burst=(i % 3 == 0))
        if cfg[3] == 2:
            # second client holds a transaction open on its own server connection while c1 works
            c2 = [req("c2", [Q("BEGIN /*f%d_c2b*/" % i)], kind="txn"), req("c2", [Q("SELECT 7 /*f%d_c2s*/" % i)], kind="txn")]
            at = rng.randint(0, max(0, len(program) // 2))
            # not between a COPY start and its data, not inside c1's own transaction (only one server connection would be free anyway)
            while at < len(program) and at > 0 and (program[at - 1]["until"] == "GZ"):
                at += 1
            program = program[:at] + c2 + program[at:]
            tail_c2 = [req("c2", [Q("COMMIT /*f%d_c2c*/" % i)], kind="txn")]
        else:
            tail_c2 = []
        if i % 5 == 4:
            # the real server closes its connection under a query (pgcat ends that client); a new client then gets a new
            # server connection, i.e. a second mirror task while the first one is told to exit
            program = program + [req("c1", [Q("SELECT 1 /*mock: close*/ /*f%d_close*/" % i)], kind="srvclose"),
                                 req("c9", [Q("SELECT 2 /*f%d_n1*/" % i)]), req("c9", [Q("SELECT 3 /*f%d_n2*/" % i)])]
        program = program + tail_c2   # c2 keeps its server connection until everybody else is done (deterministic assignment)
        fault = FAULTS[i % len(FAULTS)]
        sched = gen_schedule(rng, cfg[2], len(program), fault)
        cases.append({"kind": "fault", "cfg": cfg, "program": program, "sched": sched, "fault": fault, "app": ("app%d" % i) if i % 2 else None})
    # deterministic families for the model differential
    for i, cfg in enumerate(CONFIGS if quick else CONFIGS * 6):
        two = len(cfg[1]) == 2
        program = gen_program(rng, two, rng.randint(5, 9), "h%d" % i)
        program = [r for r in program if r["kind"] != "burst"]
        cases.append({"kind": "healthy", "cfg": cfg, "program": program, "sched": []})
    for i in range(6 if quick else 40):
        cfg = CFG[["one/m0>0", "one/m0>0,m1>0", "two/m0>0", "two/m0>0,m1>1", "one/m0>0", "one/m0>0,m1>0"][i % 6]]
        with_txn = i % 2 == 1
        program = outage_program(rng, capacity, with_txn)
        sched = [(0, mb, "down_held" if i % 4 < 2 else "refuse", 0) for mb, t in cfg[2]] + [(len(program), mb, "normal", 0) for mb, t in cfg[2]]
        cases.append({"kind": "outage", "cfg": cfg, "program": program, "sched": sched, "with_txn": with_txn})

    # the mirror stops reading while megabytes go through: the mirror task blocks in its write, the channel fills up
    for i in range(1 if quick else 4):
        cfg = CFG["one/m0>0"]
        program = [req("c1", [Q("SELECT 0 /*bp%d_first*/" % i)])]
        k = 0
        for b in range(6 if quick else 10):
            msgs = []
            for j in range(10):
                k += 1
                msgs.append(Q("SELECT %d /*%s*/ /*bp%d_%d*/" % (k, "y" * 100000, i, k)))
            program.append(req("c1", msgs, until="Z", count=10, kind="burst"))
        program.append(req("c1", [Q("SELECT 0 /*bp%d_last*/" % i)]))
        sched = [(1, "_sleep", 80, 0), (1, "m0", "noread", 0), (len(program), "m0", "normal", 0)]
        cases.append({"kind": "backpressure", "cfg": cfg, "program": program, "sched": sched})

    # healthy mirrors, multi-request sequences that leave the connection in every "unclean" state: the mirror must see them on
    # ONE continuous connection
    for i, nm_ in enumerate(["one/m0>0", "one/m0>0,m1>0", "two/m0>0,m1>1", "one/cache/m0>0", "one/plug-g2/m0>0", "two/m0>1,m1>1"] if quick else [c_[0] for c_ in CONFIGS if c_[3] == 1]):
        cfg = CFG[nm_]
        cases.append({"kind": "continuity", "cfg": cfg, "program": continuity_program("ct%d" % i, len(cfg[1]) == 2), "sched": [], "app": ("capp%d" % i) if i % 2 == 0 else None})

    # every mapping with k >= 2 mirrors on one server: each single mirror stalled in turn, >= 30 requests; every other mirror of
    # that server must still get EVERYTHING (its own channel never fills: it is healthy and fast) -- c20_mirrors_independent
    nst = 0
    for cfg in CONFIGS:
        by_target = {}
        for pos, (mb, t) in enumerate(cfg[2]):
            by_target.setdefault(t, []).append(pos)
        for t, poss in by_target.items():
            if len(poss) < 2:
                continue
            for sp in poss:
                for sm in ("hang_startup", "refuse", "noread"):
                    if quick and cfg[3] == 2:
                        continue
                    program = []
                    if t == 1:
                        program.append(req("c1", [Q("SET SERVER ROLE TO 'replica'")], kind="role"))
                    for k in range(30 + rng.randint(0, 6)):
                        if k % 7 == 3:
                            program.append(req("c1", [{"t": "P", "name": "", "sql": "SELECT %d /*st%d_%d*/" % (k, nst, k)}, {"t": "B", "portal": "", "name": ""}, {"t": "E", "portal": ""}, {"t": "S"}], until="Z", kind="ext"))
                        else:
                            program.append(req("c1", [Q("SELECT %d /*st%d_%d*/" % (k, nst, k))]))
                    first = 1 if t == 1 else 0
                    if sm == "noread":
                        sched = [(first + 1, "_sleep", 80, 0), (first + 1, cfg[2][sp][0], "noread", 0)]
                    else:
                        sched = [(0, cfg[2][sp][0], sm, 0)]
                    cases.append({"kind": "stall", "cfg": cfg, "program": program, "sched": sched, "stalled": sp, "stall_mode": sm})
                    nst += 1

    # (3) large statements into a mirror that stops reading for 1.5 s and then reads again
    big = [(65536, 80), (1048576, 6)] if quick else [(65536, 80), (65536, 120), (262144, 24), (1048576, 6), (1048576, 10), (4194304, 3), (4194304, 4)]
    for i, (size, count) in enumerate(big):
        cases.append(bigstmt_case(i, size, count))

    scns = []
    for cs in cases:
        extra = None
        tail = 150
        if cs["kind"] == "bigstmt":
            tail = 1500
        if cs["kind"] == "outage":
            tail = 900
        if cs["kind"] in ("stall", "continuity"):
            tail = 250
        if cs["kind"] == "backpressure":
            tail = 1500
        cs["scn_m"] = build_scenario(cs["cfg"], cs["program"], cs["sched"], True, tail_ms=tail, extra_tail=extra, app=cs.get("app"))
        cs["scn_b"] = build_scenario(cs["cfg"], cs["program"], cs["sched"], False, tail_ms=20, app=cs.get("app"))
        scns += [cs["scn_m"], cs["scn_b"]]
    run.log("running %d scenario pairs" % len(cases))
    heavy = [i for i, cs in enumerate(cases) if cs["kind"] in ("backpressure", "bigstmt")]
    light = [i for i, cs in enumerate(cases) if cs["kind"] not in ("backpressure", "bigstmt")]
    results = [None] * len(scns)
    idx = [j for i in light for j in (2 * i, 2 * i + 1)]
    for j, r in zip(idx, W.run_scenarios(wire, [scns[j] for j in idx], timeout=120)):
        results[j] = r
    # the multi-megabyte runs on their own, 4 at a time (their latencies are compared)
    idx = [j for i in heavy for j in (2 * i, 2 * i + 1)]
    for j, r in zip(idx, W.run_scenarios(wire, [scns[j] for j in idx], workers=4, timeout=300)):
        results[j] = r
    for i, cs in enumerate(cases):
        cs["res_m"], cs["res_b"] = results[2 * i], results[2 * i + 1]

    distinct = set()
    unconfirmed = []
    cont_total = {}
    stats = {"fault": 0, "healthy": 0, "continuity": 0, "outage": 0, "stall": 0, "backpressure": 0, "bigstmt": 0, "bigstmt_mirror_vs_primary_frames": [], "backpressure_mirror_vs_primary_frames": [], "slow_in_both_runs": [], "mirror_frames": 0, "primary_frames": 0, "mirror_conns": 0, "overflow_runs": 0, "requests": 0,
             "by_fault": {}, "by_cfg": {}, "req_kinds": {}, "max_latency_ms_with_mirrors": 0.0, "drops_observed": 0}
    samples = []
    for cs in cases:
        if len(run.violations) >= 5:
            cs["failed"] = True     # enough witnesses: do not spend minutes confirming more of the same
            continue
        run.cov["evaluations"] += 1
        def full_check(rm_, rb_):
            b_ = check_pair(cs["cfg"], cs["program"], cs["sched"], rm_, rb_)
            if not (b_ and b_[0][0] == "harness") and cs["kind"] in ("healthy", "continuity", "stall") and not failed(rm_):
                pr_, st_ = continuity(cs["cfg"], rm_, skip=(cs["stalled"],) if cs["kind"] == "stall" else ())
                b_ = b_ + [("mirror-continuity", x) for x in pr_]
                cs["cont_stats"] = st_
            return b_
        bad = full_check(cs["res_m"], cs["res_b"])
        if bad and bad[0][0] == "harness":
            run.broken.append("wire harness failed: %s" % bad[0][1])
            cs["failed"] = True
            continue
        # a failure must reproduce when the pair is re-run on its own: the machine is shared (other checks run their
        # own poolers and mock backends at the same time; load spikes), and a first failure that does not repeat is
        # recorded in the evidence but not reported
        if bad:
            first = bad
            bad = []
            for _ in range(2):
                r2 = W.run_scenarios(wire, [cs["scn_m"], cs["scn_b"]], timeout=180)
                b2 = full_check(r2[0], r2[1])
                if b2 and b2[0][0] != "harness":
                    bad = b2
                    cs["res_m"], cs["res_b"] = r2
                    break
            if failed(cs["res_m"]) or failed(cs["res_b"]):
                cs["failed"] = True
            if not bad:
                unconfirmed.append({"config": cs["cfg"][0], "kind": cs["kind"], "first_failure": [list(b) for b in first][:2]})
        key = json.dumps([cs["cfg"][0], [(r["c"], r["msgs"]) for r in cs["program"]], cs["sched"]], sort_keys=True)
        distinct.add(hashlib.sha1(key.encode()).hexdigest())
        stats[cs["kind"]] += 1
        stats["requests"] += len(cs["program"])
        for r in cs["program"]:
            stats["req_kinds"][r["kind"]] = stats["req_kinds"].get(r["kind"], 0) + 1
        stats["by_cfg"][cs["cfg"][0]] = stats["by_cfg"].get(cs["cfg"][0], 0) + 1
        if cs["kind"] == "fault":
            stats["by_fault"][cs["fault"]] = stats["by_fault"].get(cs["fault"], 0) + 1
        for kind, text in bad[:1]:
            if kind == "config-rejected":
                run.violation("tie-broken", "C20 %s: %s [config %s, which the check treats as valid]" % (kind, text, cs["cfg"][0]),
                              {"correspondence": "Mirror.Model.valid_cfg vs config::parse", "input": {"config": cs["cfg"]}, "scenario_with_mirrors": cs["scn_m"], "scenario_without": cs["scn_b"]})
        if cs.get("failed"):
            continue
        mc = mirror_counts(cs["cfg"], cs["res_m"])
        for mb, t in cs["cfg"][2]:
            stats["mirror_frames"] += mc[mb]["frames"]
            stats["mirror_conns"] += mc[mb]["conns"]
            if t < len(cs["cfg"][1]) and mc[mb]["frames"] < mc[cs["cfg"][1][t][0]]["frames"]:
                stats["drops_observed"] += 1
        for b, _ in cs["cfg"][1]:
            stats["primary_frames"] += mc[b]["frames"]
        if cs.get("cont_stats"):
            for k_, v_ in cs["cont_stats"].items():
                if isinstance(v_, list):
                    cont_total.setdefault(k_, [])
                    cont_total[k_] = (cont_total[k_] + v_)[:60]
                else:
                    cont_total[k_] = cont_total.get(k_, 0) + v_
        if cs["kind"] == "backpressure":
            stats["backpressure_mirror_vs_primary_frames"].append([mc["m0"]["frames"], mc["p0"]["frames"]])
        if cs["kind"] == "bigstmt":
            stats["bigstmt_mirror_vs_primary_frames"].append({"statement_bytes": cs["size"], "statements": cs["count"], "mirror_frames": mc["m0"]["frames"], "server_frames": mc["p0"]["frames"]})
        lat_b = {(w, l): ms for w, l, ms in request_latencies(cs["res_b"])}
        for w, l, ms in request_latencies(cs["res_m"]):
            stats["max_latency_ms_with_mirrors"] = max(stats["max_latency_ms_with_mirrors"], ms)
            if ms > LAT_BOUND_MS and len(stats["slow_in_both_runs"]) < 10:
                kind = cs["program"][int(l[1:])]["kind"] if l and l[1:].isdigit() and int(l[1:]) < len(cs["program"]) else None
                stats["slow_in_both_runs"].append({"config": cs["cfg"][0], "client": w, "request": l, "kind": kind, "ms_with_mirrors": round(ms), "ms_without": round(lat_b.get((w, l), -1))})
        run.cov["traces_validated_against_impl"] += 1
        for kind, text in bad[:1]:
            run.violation("counterexample" if kind in ("transcript", "server-bytes", "latency", "mirror-foreign", "mirror-subseq", "mirror-partial", "mirror-truncated", "mirror-continuity", "mirror") else "tie-broken",
                          "C20 %s: %s [config %s, %s]" % (kind, text, cs["cfg"][0], cs["kind"]),
                          {"input": {"config": cs["cfg"], "program": cs["program"], "schedule": cs["sched"], "kind": cs["kind"]},
                           "monitor": [list(b) for b in bad], "scenario_with_mirrors": cs["scn_m"], "scenario_without": cs["scn_b"]})
        if len(samples) < 3 and cs["kind"] == "fault":
            samples.append({"config": cs["cfg"][0], "schedule": cs["sched"], "requests": [r["kind"] for r in cs["program"]], "frames_seen": mc})

    # ---- model differential (deterministic families)
    if proof_ok and not run.violations:
        exprs, metas = [], []
        for cs in cases:
            if cs["kind"] not in ("healthy", "continuity", "outage", "stall") or cs.get("failed") or failed(cs["res_m"]):
                continue
            plan, cid_of, seg_list = plan_for(cs["cfg"], cs["res_m"], "healthy" if cs["kind"] == "continuity" else cs["kind"], capacity, stalled=cs.get("stalled"))
            exprs.append(model_expr(cs["cfg"], plan))
            metas.append((cs, cid_of, seg_list))
        # attachment function on every configuration, every index
        att = []
        for cfg in CONFIGS + REJECTED_CONFIGS:
            for idx in range(0, 7):
                att.append((cfg, idx))
                exprs.append("map (fun im => fst im) (mirrors_of %s 0 %d)" % (coq_cfg(cfg), idx))
        vals = vlib.coq_eval("c20", PREAMBLE, exprs, shard=8)
        for (cs, cid_of, seg_list), v in zip(metas, vals):
            run.cov["evaluations"] += 1
            mv = vlib.parse_coq(v)
            dis = compare_model(cs["cfg"], cs["res_m"], mv, cid_of, seg_list, skip=cs.get("stalled"))
            if dis:
                # timing-dependent deliveries are not a defect by themselves: confirm on a re-run before reporting
                r2 = W.run_scenario(wire, cs["scn_m"], timeout=120)
                if failed(r2):
                    run.broken.append("wire harness failed on a re-run: %s" % str(r2.get("harness_error") or r2.get("start_error"))[:200])
                    continue
                plan2, cid2, seg2 = plan_for(cs["cfg"], r2, "healthy" if cs["kind"] == "continuity" else cs["kind"], capacity, stalled=cs.get("stalled"))
                v2 = vlib.coq_eval("c20r", PREAMBLE, [model_expr(cs["cfg"], plan2)])[0]
                dis2 = compare_model(cs["cfg"], r2, vlib.parse_coq(v2), cid2, seg2, skip=cs.get("stalled"))
                run.cov["disagreements_checked"] += 1
                if dis2:
                    run.violation("counterexample" if cs["kind"] == "stall" else "tie-broken",
                                  ("C20 fan-out: with mirror #%d of the server stalled (%s) a HEALTHY mirror of the same server did not get every request (c20_mirrors_independent); " % (cs["stalled"], cs["stall_mode"]) if cs["kind"] == "stall" else "") +
                                  "mirroring model and implementation disagree (%s schedule, config %s): %s" % (cs["kind"], cs["cfg"][0], dis2[0]),
                                  {"correspondence": "coq/Mirror/Model.v runw vs wire run (what each mirror was handed)",
                                   "input": {"config": cs["cfg"], "program": cs["program"], "schedule": cs["sched"], "kind": cs["kind"]},
                                   "disagreement": dis2, "model": v2, "scenario_with_mirrors": cs["scn_m"], "scenario_without": cs["scn_b"]}, found_input=(cs["kind"] == "stall"))
            if cs["kind"] == "outage":
                stats["overflow_runs"] += 1
                if cs.get("with_txn"):
                    # C20-M3: the mirror session is left inside a transaction
                    snap = (cs["res_m"].get("snapshots") or [{}])[-1]
                    for mb, t in cs["cfg"][2]:
                        if t >= len(cs["cfg"][1]):
                            continue
                        opn = snap.get("backends", {}).get(mb, {}).get("open", [])
                        if any(o.get("s", {}).get("state", {}).get("txn") == "T" for o in opn):
                            run.known_finding("C20-M3 " + KNOWN_TEXT["C20-M3"], key="C20-M3")
        for (cfg, idx), v in zip(att, vals[len(metas):]):
            run.cov["evaluations"] += 1
            distinct.add("att:%s:%d" % (cfg[0], idx))
            mv = vlib.parse_coq(v)
            want = [j for j, (mb, t) in enumerate(cfg[2]) if t == idx and idx < len(cfg[1])]
            if mv != want:
                run.violation("tie-broken", "mirrors_of disagrees with the configuration: config %s index %d model %s expected %s" % (cfg[0], idx, mv, want),
                              {"correspondence": "Mirror.Model.mirrors_of", "input": {"config": cfg, "index": idx}, "model": mv}, found_input=False)
        # which mirrors were really attached (connected to), healthy runs: exactly the model's
        for cs in cases:
            if cs["kind"] != "healthy" or cs.get("failed") or failed(cs["res_m"]):
                continue
            name, servers, mirrors, pool_size = cs["cfg"][:4]
            for j, (mb, t) in enumerate(mirrors):
                md, morder = conn_frames(cs["res_m"], mb)
                used = t < len(servers) and bool(conn_frames(cs["res_m"], servers[t][0])[1])
                if bool(morder) != used:
                    run.violation("tie-broken", "attachment: mirror %s (target %d) connected=%s but its target server was %sused (config %s)" % (mb, t, bool(morder), "" if used else "not ", name),
                                  {"correspondence": "mirrors_of vs connections opened", "input": {"config": cs["cfg"], "program": cs["program"]}, "scenario_with_mirrors": cs["scn_m"]}, found_input=False)
        if metas:
            samples.append({"kind": "model", "expr": exprs[0][:600], "value": vals[0][:300]})

    # ---- (2) round-trip latency on the client path while the mirrors are unreachable / hung / not reading.  A MONITOR on the
    # real code (the theorem is c20_client_path_independent; what it assumes -- a mirror task that waits does not hold a
    # runtime worker -- is what is observed here): same script without mirrors first, in the same process; 1 and 2 workers.
    lat_cases = [(k, w) for k in LAT_KINDS for w in (1, 2)]
    lat_scn = {kw: latency_scenario(*kw) for kw in lat_cases}
    lat_res = dict(zip(lat_cases, W.run_scenarios(wire, [lat_scn[kw] for kw in lat_cases], workers=10, timeout=200)))
    lat_ev = {}
    for kw in lat_cases:
        run.cov["evaluations"] += 1
        distinct.add("latency:%s:%d" % kw)
        res = lat_res[kw]
        if failed(res) and res.get("harness_error") != "timeout":
            run.broken.append("wire harness failed (latency %s workers=%d): %s" % (kw[0], kw[1], str(res.get("harness_error") or res.get("start_error"))[:200]))
            continue
        m = latency_eval(res)
        hung = failed(res)          # the whole scenario did not finish in 200 s
        if (hung or latency_verdict(m)) and len([v for v in run.violations if "C20 latency" in v[0]]) >= 3:
            lat_ev["%s/workers=%d" % kw] = m     # recorded, not confirmed: three witnesses are reported already
            continue
        if hung or latency_verdict(m):
            # confirm alone
            r2 = W.run_scenario(wire, lat_scn[kw], timeout=200)
            m2 = latency_eval(r2)
            if (failed(r2) and r2.get("harness_error") == "timeout") or latency_verdict(m2):
                run.violation("counterexample", "C20 latency: with the mirrors in fault '%s' and %d runtime worker(s) the median client round trip on the mirrored pool is %s ms, "
                              "without mirrors in the same process %s ms (20 small queries each; bound: 10x and 150 ms)" % (
                                  kw[0], kw[1], (m2 or {}).get("fault_median_ms", "> 2000 (scenario did not finish)"), (m2 or {}).get("base_median_ms", "?")),
                              {"input": {"fault": kw[0], "workers": kw[1]}, "measured_first": m, "measured_again": m2, "scenario_with_mirrors": lat_scn[kw]})
            else:
                unconfirmed.append({"kind": "latency", "fault": kw[0], "workers": kw[1], "first": m, "again": m2})
            m = m2 or m
        lat_ev["%s/workers=%d" % kw] = m
    run.cov["client_round_trip_latency"] = lat_ev

    # ---- C20-M4 regression (fixed by 0edee1c): a mirror that names no server of its shard must be REJECTED; and the
    # model's valid_cfg must agree with config::parse on every mapping used here
    rej_scns = []
    for cfg in REJECTED_CONFIGS:
        prog = [req("c1", [Q("SELECT 1 /*rej*/")])]
        rej_scns += [build_scenario(cfg, prog, [], True, tail_ms=10), build_scenario(cfg, prog, [], False, tail_ms=10)]
    rej_res = W.run_scenarios(wire, rej_scns, timeout=60)
    accepted_by_impl = {}
    for k, cfg in enumerate(REJECTED_CONFIGS):
        rm_, rb_ = rej_res[2 * k], rej_res[2 * k + 1]
        run.cov["evaluations"] += 1
        distinct.add("rejected:" + cfg[0])
        if "harness_error" in rm_ or "harness_error" in rb_ or failed(rb_):
            run.broken.append("wire harness failed (rejected-config regression %s): %s / %s" % (cfg[0], str(rm_.get("harness_error") or rm_.get("start_error"))[:120], str(rb_.get("harness_error") or rb_.get("start_error"))[:120]))
            continue
        accepted_by_impl[cfg[0]] = not rm_.get("start_error")
        if not rm_.get("start_error"):
            opened = [mb for mb, t in cfg[2] if conn_frames(rm_, mb)[1]]
            run.violation("counterexample", "C20-M4 regression: the configuration %s (a mirror whose mirroring_target_index is not a server of its shard) is accepted; mirrors connected to: %s" % (cfg[0], opened),
                          {"input": {"config": cfg, "toml": rej_scns[2 * k]["toml"]}, "expected": "config::parse -> BadConfig", "scenario_with_mirrors": rej_scns[2 * k], "scenario_without": rej_scns[2 * k + 1]})
        elif "BadConfig" not in str(rm_.get("start_error")):
            run.broken.append("rejected-config regression %s: pgcat did not start, but not with BadConfig: %s" % (cfg[0], str(rm_.get("start_error"))[:200]))
    for cs in cases:
        if cs["kind"] == "healthy" and not cs.get("failed"):
            accepted_by_impl[cs["cfg"][0]] = True
    run.cov["rejected_configs_checked"] = sorted(k for k, v in accepted_by_impl.items() if not v)
    if proof_ok:
        names = sorted(accepted_by_impl)
        allc = {c[0]: c for c in CONFIGS + REJECTED_CONFIGS}
        vv = vlib.coq_eval("c20v", PREAMBLE, ["valid_cfg %s" % coq_cfg(allc[n]) for n in names], shard=40)
        for n, v in zip(names, vv):
            run.cov["evaluations"] += 1
            if vlib.parse_coq(v) != accepted_by_impl[n] and not (accepted_by_impl[n] and n in [c[0] for c in REJECTED_CONFIGS]):
                run.violation("tie-broken", "valid_cfg (model) = %s but config::parse %s the mapping %s" % (v, "accepts" if accepted_by_impl[n] else "rejects", n),
                              {"correspondence": "Mirror.Model.valid_cfg vs Shard::validate", "input": {"config": allc[n]}, "model": v}, found_input=False)

    # ---- confirmed mirror-only defects, each with its control
    if not run.violations:
        cfgd, progd, scn_f = desync_scenario(True)
        _, _, scn_c = desync_scenario(False)
        cfgz, scn_z = zombie_scenario()
        rf, rc, rz = W.run_scenarios(wire, [scn_f, scn_c, scn_z], timeout=120)
        run.cov["evaluations"] += 3
        for label, res, scn in (("desync", rf, scn_f), ("desync-control", rc, scn_c)):
            if failed(res):
                run.broken.append("wire harness failed (%s scenario): %s" % (label, str(res.get("harness_error") or res.get("start_error"))[:200]))
                continue
            # the primary path of both must be complete and identical
            if [x for x in client_transcript(res) if x[2] != "ok"]:
                run.violation("counterexample", "C20 transcript: a request failed in the %s scenario: %s" % (label, [x[:3] for x in client_transcript(res) if x[2] != "ok"]),
                              {"input": {"scenario": label}, "scenario_with_mirrors": scn})
        if not failed(rf) and not failed(rc):
            if [x[3] for x in client_transcript(rf)] != [x[3] for x in client_transcript(rc)]:
                run.violation("counterexample", "C20 transcript: the client sees different bytes when the mirror's reply is cut in two", {"input": {"scenario": "desync"}, "scenario_with_mirrors": scn_f, "scenario_without": scn_c})
            mf = sum(len([f for f in v if f[0] != "X"]) for v in conn_frames(rf, "m0")[0].values())
            mcn = sum(len([f for f in v if f[0] != "X"]) for v in conn_frames(rc, "m0")[0].values())
            pf = sum(len([f for f in v if f[0] != "X"]) for v in conn_frames(rf, "p0")[0].values())
            run.cov["desync"] = {"primary_frames": pf, "mirror_frames_when_reply_cut": mf, "mirror_frames_control": mcn}
            if mcn == pf and mf < pf:
                run.known_finding("C20-M1 " + KNOWN_TEXT["C20-M1"] + " [confirmed: real server got %d requests, healthy mirror %d of them after one reply was cut in two; control %d]" % (pf, mf, mcn), key="C20-M1")
            bad = check_pair(cfgd, progd, [], rf, rc)
            for kind, text in [b for b in bad if b[0] not in ("transcript", "server-bytes", "latency")][:1]:
                run.violation("counterexample", "C20 %s: %s [desync scenario]" % (kind, text), {"input": {"scenario": "desync"}, "scenario_with_mirrors": scn_f})
        if not failed(rz):
            pclose = [e["seq"] for e in rz["events"] if e.get("who") == "p0" and e.get("ev") == "close"]
            mopen = [e["seq"] for e in rz["events"] if e.get("who") == "m0" and e.get("ev") == "open"]
            stale = [e for e in rz["events"] if e.get("who") == "m0" and e.get("ev") == "msg" and e["tag"] != "X"]
            run.cov["zombie"] = {"primary_conn_closed_at_seq": pclose[:1], "mirror_opened_at_seq": mopen, "stale_requests_replayed": len(stale)}
            if pclose and mopen and min(mopen) > pclose[0]:
                run.known_finding("C20-M2 " + KNOWN_TEXT["C20-M2"] + " [confirmed: the server connection closed at event %d, the mirror task connected to the mirror at event %d and replayed %d stale request(s)]" % (pclose[0], min(mopen), len(stale)), key="C20-M2")
            # whatever was replayed is still only that connection's traffic
            badz = check_pair(cfgz, [], [], rz, rz)
            for kind, text in [b for b in badz if b[0].startswith("mirror")][:1]:
                run.violation("counterexample", "C20 %s: %s [zombie scenario]" % (kind, text), {"input": {"scenario": "zombie"}, "scenario_with_mirrors": scn_z})

    # ---- a reload that only moves a mirror to another server of the shard
    scn_rt = retarget_scenario()
    r_rt = W.run_scenario(wire, scn_rt, timeout=60)
    run.cov["evaluations"] += 1
    distinct.add("retarget-by-reload")
    if failed(r_rt):
        run.broken.append("wire harness failed (retarget scenario): %s" % str(r_rt.get("harness_error") or r_rt.get("start_error"))[:200])
    else:
        def seen(res):
            return [e["detail"].get("sql") or "" for e in res["events"] if e.get("who") == "m0" and e.get("ev") == "msg" and e["tag"] == "Q"]
        def verdict(res):
            sq = seen(res)
            at = lambda t: any(t in x for x in sq)
            probs = []
            if not at("rt_A_primary") or at("rt_A_replica"):
                probs.append("before the reload the mirror of server 0 saw %s" % [x[-24:] for x in sq if "rt_A" in x])
            if any("rt_B_primary" in x for x in sq):
                probs.append("after the reload (target index 0 -> 1) the mirror still receives requests of server 0")
            if not (at("rt_B_replica_c1") and at("rt_B_replica_c3")):
                probs.append("after the reload (target index 0 -> 1) the mirror does not receive the requests of server 1 (got %s)" % [x[-24:] for x in sq if "rt_B" in x])
            return probs
        pr = verdict(r_rt)
        if pr:
            r2 = W.run_scenario(wire, scn_rt, timeout=60)
            pr = verdict(r2) if not failed(r2) else []
        run.cov["retarget_by_reload"] = {"mirror_saw": [x[-26:] for x in seen(r_rt)], "reload": [e.get("result") for e in r_rt["events"] if e.get("ev") == "reload"]}
        if pr:
            run.violation("counterexample", "C20 retarget: %s" % "; ".join(pr), {"input": {"scenario": "reload changes only mirroring_target_index 0 -> 1"}, "scenario_with_mirrors": scn_rt})

    run.cov["distinct_nontrivial"] = len(distinct)
    run.cov["rule"] = ("pairs (same client program + same mirror fault schedule, run with and without the [mirrors] section): %d fault timings over %d mirror-to-server mappings "
                       "(1-2 servers, 0-2 mirrors per server, target index 0/1/5=no server, pool_size 1-2, statement cache off/on), first mirror's fault cycling through %s, shapes from-start / later / recovering / flapping, "
                       "second mirror random; programs of 5-15 requests: simple queries, transactions, SET, extended batches (named/unnamed), COPY IN with chunks up to 9000 bytes, queries of 8.2-20 kB, error replies, "
                       "bursts of 15-24 pipelined queries, SET SERVER ROLE switches, a second client holding a transaction on its own server connection, the real server closing its connection + a new client; "
                       "+ healthy and outage (mirror unreachable, > capacity requests, mirror back) families compared with the Coq model; + back-pressure runs (mirror stops reading, 6-10 MB of requests); "
                       "+ mirrors_of on every (mapping, index 0..6) incl. %d mappings that must be rejected (a mirror naming no server: regression of C20-M4) with valid_cfg compared to config::parse; + 3 directed scenarios for the mirror-only defects. A failing pair is re-run alone and reported only if it fails again. "
                       "distinct = distinct (mapping, program, schedule) triples + attachment queries" % (nfault, len(CONFIGS), FAULTS, len(REJECTED_CONFIGS)))
    run.cov["samples"] = samples[:5]
    run.cov["input_distribution"] = stats
    run.cov["mirror_continuity"] = cont_total
    run.cov["unconfirmed_first_failures"] = unconfirmed[:10]

    if not (tr_ok and proof_ok) and not run.violations and not run.broken:
        name = "translator shape (translate/mirror_consts.py: %s)" % tr_msg if not tr_ok else "Mirror/Props.v"
        run.violation("proof-broken", "proof obligation %s no longer checks; the wire monitors found no failing input in %d scenario pairs" % (name, len(cases)),
                      {"theorem": name, "coq_log": log[-2500:]}, found_input=False)
    if not quick and proof_ok:
        vlib.coqchk(run, ["PV.Mirror.Props"])


def replay(run, path):
    r = json.load(open(path))
    ok, blog, bins = vlib.cargo_build(["wire"])
    wire = bins["wire"]
    print(json.dumps({k: v for k, v in r.items() if not k.startswith("scenario")}, indent=1)[:4000])
    sm, sb = r.get("scenario_with_mirrors"), r.get("scenario_without")
    if not sm:
        return 0
    res = W.run_scenarios(wire, [sm] + ([sb] if sb else [sm]), timeout=120)
    inp = r.get("input", {})
    if "config" in inp and "program" in inp:
        cfg = inp["config"]
        cfg = tuple([cfg[0], [tuple(x) for x in cfg[1]], [tuple(x) for x in cfg[2]], cfg[3]] + list(cfg[4:]))
        bad = check_pair(cfg, inp["program"], [tuple(x) for x in inp.get("schedule", [])], res[0], res[1])
        print("replay:", bad)
        return 1 if bad else 0
    print("replay: transcripts equal =", client_transcript(res[0]) == client_transcript(res[1]))
    return 0 if client_transcript(res[0]) == client_transcript(res[1]) else 1
