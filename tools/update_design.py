#!/usr/bin/env python3
"""tools/update_design.py — refresh the generated tables of DESIGN.md (between <!-- X:BEGIN --> / <!-- X:END --> markers)."""
import os, re, subprocess, sys
ROOT = os.path.dirname(os.path.dirname(os.path.abspath(__file__)))
p = os.path.join(ROOT, "DESIGN.md")
s = open(p).read()
for tag, tool in (("FINDINGS", "findings_table.py"), ("SUMMARY", "summary_table.py"), ("SEEDED", "seeded_meta.py")):
    out = subprocess.run([sys.executable, os.path.join(ROOT, "tools", tool)], capture_output=True, text=True).stdout.strip("\n")
    a, b = "<!-- %s:BEGIN -->" % tag, "<!-- %s:END -->" % tag
    i, j = s.index(a) + len(a), s.index(b)
    s = s[:i] + "\n" + out + "\n" + s[j:]
open(p, "w").write(s)
print("DESIGN.md tables refreshed")
