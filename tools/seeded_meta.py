#!/usr/bin/env python3
"""tools/seeded_meta.py — (re)write seeded/<id>/meta.json from README.md + seeded/results.jsonl and print
the 'which check catches which seeded change' table (markdown) for DESIGN.md."""
import os, re, json, glob
ROOT = os.path.dirname(os.path.dirname(os.path.abspath(__file__)))
SD = os.path.join(ROOT, "seeded")
results = {}
p = os.path.join(SD, "results.jsonl")
if os.path.exists(p):
    for l in open(p):
        if l.strip():
            r = json.loads(l)
            d = results.setdefault(r["seeded"], {})
            for c, v in r["results"].items():
                d[c] = {"result": v, "repo_head": r["repo_head"], "tier": r["tier"]}   # the latest run wins


def section(md, title_re):
    m = re.search(r"^##+\s*(%s)[^\n]*\n(.*?)(?=^##+\s|\Z)" % title_re, md, re.S | re.M | re.I)
    return re.sub(r"\s+", " ", m.group(2)).strip() if m else ""


rows = []
for d in sorted(glob.glob(os.path.join(SD, "C*-*"))):
    sid = os.path.basename(d)
    md = open(os.path.join(d, "README.md")).read() if os.path.exists(os.path.join(d, "README.md")) else ""
    title = (md.splitlines() or [""])[0].lstrip("# ").strip()
    files = sorted(set(re.findall(r"^\+\+\+ b/(\S+)", open(os.path.join(d, "patch.diff")).read(), re.M)))
    demo = sorted(os.path.relpath(f, d) for f in glob.glob(os.path.join(d, "**", "*"), recursive=True)
                  if os.path.isfile(f) and os.path.basename(f) not in ("README.md", "patch.diff", "meta.json"))
    meta = {"id": sid, "property": sid.split("-")[0], "title": title, "touches": files,
            "needs": section(md, "What is needed|What it needs|Needs|When it manifests")[:900],
            "why": section(md, "Why it breaks")[:900],
            "demonstration": demo,
            "confirmed": "patch applies to /repo, pgcat builds, the 35-test baseline passes with it, the demonstration shows the broken behaviour (run by the seeding agent in its worktree; re-checked by the main session through the checks below)",
            "checks": results.get(sid, {})}
    json.dump(meta, open(os.path.join(d, "meta.json"), "w"), indent=1)
    det = [c for c, v in meta["checks"].items() if v["result"] == "DETECTED"]
    mis = [c for c, v in meta["checks"].items() if v["result"] != "DETECTED"]
    rows.append("| %s | %s | %s | %s | %s |" % (sid, title.replace("|", "/")[:90], ", ".join(files), ", ".join(det) or "—", ", ".join(mis) or "—"))
print("| seeded change | what | touches | detected by | run but not detected by |\n|---|---|---|---|---|")
print("\n".join(rows))
