#!/usr/bin/env python3
"""tools/run_seeded.py [ids...] [--extra Cxx,Cyy] [--only-missing]
Run every seeded change (or the given seeded ids) through the check of its own property (plus --extra checks)
with tools/try_mutant.py, one after the other (they all patch /repo, so nothing else may use /repo meanwhile)."""
import sys, os, json, subprocess, glob
ROOT = os.path.dirname(os.path.dirname(os.path.abspath(__file__)))
args = [a for a in sys.argv[1:] if not a.startswith("--")]
extra = []
only_missing = "--only-missing" in sys.argv
for i, a in enumerate(sys.argv):
    if a == "--extra":
        extra = sys.argv[i + 1].split(",")
        args = [x for x in args if x != sys.argv[i + 1]]
done = {}
rp = os.path.join(ROOT, "seeded", "results.jsonl")
if os.path.exists(rp):
    for l in open(rp):
        if l.strip():
            r = json.loads(l)
            done.setdefault(r["seeded"], {}).update(r["results"])
ids = args or sorted(os.path.basename(d) for d in glob.glob(os.path.join(ROOT, "seeded", "C*-*")))
for sid in ids:
    checks = [sid.split("-")[0]] + [e for e in extra if e != sid.split("-")[0]]
    if only_missing:
        checks = [c for c in checks if c not in done.get(sid, {})]
    if not checks:
        continue
    print("=====", sid, checks, flush=True)
    subprocess.run([sys.executable, os.path.join(ROOT, "tools", "try_mutant.py"), os.path.join(ROOT, "seeded", sid, "patch.diff")] + checks)
