#!/usr/bin/env python3
"""tools/summary_table.py — the §12 table of DESIGN.md from MANIFEST.json + tools/checks.json + evidence/*.json
(the numbers are those of the last run of each check on this machine)."""
import json, os, glob
ROOT = os.path.dirname(os.path.dirname(os.path.abspath(__file__)))
man = json.load(open(os.path.join(ROOT, "MANIFEST.json")))
checks = json.load(open(os.path.join(ROOT, "tools", "checks.json")))
known = {}
for l in open(os.path.join(ROOT, "known_findings.jsonl")):
    if l.strip():
        d = json.loads(l)
        known.setdefault(d["property"], {"fixed": 0, "known": 0})[d["status"]] += 1
print("| id | level | Coq (coq/…) | obligations discharged | model/impl evaluations (last run) | traces validated against the implementation | quick wall (s) | findings fixed / known |")
print("|---|---|---|---|---|---|---|---|")
for c in sorted(man["checks"], key=lambda c: c["property_id"] if "property_id" in c else c.get("id", "")):
    pid = c.get("property_id") or c.get("id")
    ev = {}
    p = os.path.join(ROOT, "evidence", pid + ".json")
    if os.path.exists(p):
        ev = json.load(open(p))
    cov = ev.get("coverage", {})
    dirs = sorted({t.split("/")[0] for t in checks.get(pid, {}).get("coq_targets", [])})
    k = known.get(pid, {"fixed": 0, "known": 0})
    print("| %s | %s | %s | %s/%s | %s | %s | %s | %d / %d |" % (
        pid, c.get("level", ev.get("level", "")), ", ".join(dirs), cov.get("discharged", "?"), cov.get("obligations", "?"),
        cov.get("evaluations", "?"), cov.get("traces_validated_against_impl", "?"),
        ("%.0f" % ev["wall_s"]) if "wall_s" in ev and ev.get("tier") == "quick" else "(%s tier)" % ev.get("tier", "?"), k["fixed"], k["known"]))
