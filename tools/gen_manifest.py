#!/usr/bin/env python3
"""Regenerate MANIFEST.json from tools/checks.json (claimed checks) + properties.jsonl."""
import json, os
ROOT = os.path.dirname(os.path.dirname(os.path.abspath(__file__)))
props = [json.loads(l) for l in open(os.path.join(ROOT, "properties.jsonl"))]
claimed = json.load(open(os.path.join(ROOT, "tools", "checks.json")))
m = {"version": 1, "setup_cmd": "./setup.sh",
     "hooks": {"guard": "pgcat_verif",
               "enable": "RUSTFLAGS=\"--cfg pgcat_verif\" (set by vlib.cargo_build for the harness crate, which depends on pgcat by path = /repo)",
               "baseline_off_cmd": "cd /repo && cargo test --workspace --no-fail-fast --offline",
               "source_commits": claimed.get("_hook_commits", []), "add_only": True},
     "engines": [{"name": "coq", "path": "coq/", "serves_properties": sorted(k for k in claimed if not k.startswith("_")),
                  "kind_free_text": "Rocq/Coq 8.16.1 development: models, specifications, theorems (one directory per property); coq/Gen is regenerated from /repo by translate/*.py"},
                 {"name": "harness", "path": "harness/", "serves_properties": sorted(k for k in claimed if not k.startswith("_")),
                  "kind_free_text": "Rust crate linking pgcat from /repo (path dependency): library-level drivers and the wire harness (pgcat in-process + mock PostgreSQL backends + scripted clients) run the real code on the inputs the models are evaluated on"}],
     "checks": [], "notes": "./check <id> [--tier quick|thorough] [--replay f]; see DESIGN.md", "not_applicable": []}
for p in props:
    i = p["id"]
    if i in claimed:
        c = claimed[i]
        m["checks"].append({"property_id": i, "quick_cmd": "./check %s --tier quick" % i, "thorough_cmd": "./check %s --tier thorough" % i,
                            "evidence_file": "evidence/%s.json" % i, "replay_cmd_template": "./check %s --replay {path}" % i, "engine": "coq",
                            "level_claimed": {"category": "proof", "text": c["text"], "design_ref": c.get("design_ref", "DESIGN.md §7 " + i)},
                            "level_note": c["note"], "technique": c.get("technique", "Coq proof over an executable model + differential correspondence with the real code")})
    else:
        m["not_applicable"].append({"property_id": i, "reason": "check under construction in this session (model and harness not yet committed); see DESIGN.md §7"})
json.dump(m, open(os.path.join(ROOT, "MANIFEST.json"), "w"), indent=1)
print("claimed:", [c["property_id"] for c in m["checks"]])
