#!/usr/bin/env python3
"""Print the §8 table of DESIGN.md from known_findings.jsonl."""
import json, os
ROOT = os.path.dirname(os.path.dirname(os.path.abspath(__file__)))
rows = {}
for l in open(os.path.join(ROOT, "known_findings.jsonl")):
    l = l.strip()
    if not l:
        continue
    e = json.loads(l)
    k = (e["id"], e["status"])
    r = rows.setdefault(k, {"props": [], "e": e})
    r["props"].append(e["property"])
print("| id | properties | status | what failed |")
print("|---|---|---|---|")
for (i, st), r in rows.items():
    e = r["e"]
    what = e.get("what") or e.get("line", "").split(" ", 3)[-1]
    if st == "fixed":
        what = e["line"].split(" ", 3)[-1]
        st = "fixed in /repo " + e.get("commit", "")
    print("| %s | %s | %s | %s |" % (i, " ".join(sorted(set(r["props"]))), st, what.replace("|", "\\|")))
