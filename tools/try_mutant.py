#!/usr/bin/env python3
"""tools/try_mutant.py <patch.diff> <Cnn> [<Cnn> ...]
Apply a seeded change to /repo, run the given checks (quick tier), undo the change.
Prints one line per check: DETECTED (VIOLATION line seen) | MISSED | BROKEN."""
import subprocess, sys, os, json
ROOT = os.path.dirname(os.path.dirname(os.path.abspath(__file__)))
patch, checks = sys.argv[1], sys.argv[2:]
assert subprocess.run(["git", "-C", "/repo", "status", "--porcelain", "--untracked-files=no"], capture_output=True).stdout.strip() == b"", "/repo not clean"
r = subprocess.run(["git", "-C", "/repo", "apply", os.path.abspath(patch)])
if r.returncode:
    sys.exit("patch does not apply")
res = {}
try:
    for c in checks:
        p = subprocess.run([os.path.join(ROOT, "check"), c, "--tier", os.environ.get("VERIF_TIER", "quick")], capture_output=True, cwd=ROOT)
        out = p.stdout.decode()
        v = [l for l in out.splitlines() if l.startswith("VIOLATION")]
        res[c] = "DETECTED" if v and p.returncode == 1 else ("BROKEN" if p.returncode not in (0, 1) else "MISSED")
        print(c, res[c], (v[0] if v else ""), ("[%d VIOLATION lines, %d with a failing input]" % (len(v), sum(1 for l in v if not l.endswith("no-failing-input-found"))) if v else ""), flush=True)
        if v:
            for l in out.splitlines():
                if l.startswith("  ->"):
                    print("   ", l.strip()[:300])
                    break
finally:
    subprocess.run(["git", "-C", "/repo", "checkout", "--", "."])
    # files added by the patch
    subprocess.run(["git", "-C", "/repo", "clean", "-fdq", "--", "src", "tests"])
print(json.dumps(res))
# record the outcome next to the seeded change
ap = os.path.abspath(patch)
sd = os.path.join(ROOT, "seeded")
if ap.startswith(sd + os.sep):
    head = subprocess.run(["git", "-C", "/repo", "rev-parse", "--short", "HEAD"], capture_output=True).stdout.decode().strip()
    with open(os.path.join(sd, "results.jsonl"), "a") as f:
        f.write(json.dumps({"seeded": os.path.relpath(os.path.dirname(ap), sd), "repo_head": head,
                            "tier": os.environ.get("VERIF_TIER", "quick"), "results": res}) + "\n")
