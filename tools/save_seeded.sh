#!/bin/sh
# tools/save_seeded.sh <cNN> [prefix]: copy a seeder's output from /tmp/<prefix>_<cNN>/out/<i>/ to seeded/<CNN>-<i>/ and remove its worktree
# (prefix defaults to "mut").  Does not touch /repo's working tree.
set -e
p=$1; pre=${2:-mut}; P=$(echo $p | tr a-z A-Z)
cd "$(dirname "$0")/.."
for d in /tmp/${pre}_$p/out/[0-9]*; do i=$(basename $d); mkdir -p seeded/$P-$i; cp -r $d/. seeded/$P-$i/; echo "saved seeded/$P-$i"; done
git -C /repo worktree remove --force /tmp/${pre}_$p || true
rm -rf /tmp/${pre}_$p /tmp/${pre}_$p.task.txt
