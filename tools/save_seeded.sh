#!/bin/sh
# tools/save_seeded.sh <cNN>: copy a seeder's output from /tmp/mut_<cNN>/out/<i>/ to seeded/<CNN>-<i>/ and remove its worktree
set -e
p=$1; P=$(echo $p | tr a-z A-Z)
cd "$(dirname "$0")/.."
for d in /tmp/mut_$p/out/[0-9]*; do i=$(basename $d); mkdir -p seeded/$P-$i; cp -r $d/. seeded/$P-$i/; done
git -C /repo worktree remove --force /tmp/mut_$p || true
rm -rf /tmp/mut_$p /tmp/mut_$p.task.txt
for f in seeded/$P-*/patch.diff; do (cd /repo && git apply --check /verif/$f && echo "applies: $f") || echo "DOES NOT APPLY: $f"; done
