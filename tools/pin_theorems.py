#!/usr/bin/env python3
"""tools/pin_theorems.py — (re)write coq/pins.json: for every coq/<Dir>/Props.v (and Cmd/Tie.v, Ban/Tie.v) the theorem names and a
hash of each statement.  vlib.prove refuses to run a check whose pinned theorem changed or vanished; run this tool deliberately
after an intended change of a statement (and say why in the commit)."""
import os, sys, json, glob
ROOT = os.path.dirname(os.path.dirname(os.path.abspath(__file__)))
sys.path.insert(0, ROOT)
import vlib
pins = {}
for f in sorted(glob.glob(os.path.join(vlib.COQ, "*", "Props.v")) + glob.glob(os.path.join(vlib.COQ, "*", "Tie.v"))):
    rel = os.path.relpath(f, vlib.COQ)
    if rel.startswith("Gen/"):
        continue
    st = vlib.props_statements(rel)
    if st:
        pins[rel] = st
json.dump(pins, open(vlib.PINS, "w"), indent=1, sort_keys=True)
print("pinned %d theorems in %d files" % (sum(len(v) for v in pins.values()), len(pins)))
