"""Shared plumbing for the per-property checks (python3 stdlib only).

Everything a check writes goes under /verif/.cache (never /tmp); the only
files a check leaves in the tracked tree are evidence/<id>.json and, on a
violation, replays/<id>/<hash>.json.
"""
import fcntl, glob, hashlib, json, os, random, re, shutil, subprocess, sys, time

ROOT = os.path.dirname(os.path.abspath(__file__))
REPO = os.environ.get("PGCAT_REPO", "/repo")
CACHE = os.path.join(ROOT, ".cache")
COQ = os.path.join(ROOT, "coq")
HARNESS = os.path.join(ROOT, "harness")
TARGET = os.path.join(CACHE, "target")
TMP = os.path.join(CACHE, "tmp")
GUARD = "pgcat_verif"

FORBIDDEN = [r"\bAdmitted\b", r"\badmit\b", r"\bAxiom\b", r"\bAxioms\b", r"\bParameter\b",
             r"\bParameters\b", r"\bConjecture\b", r"Unset\s+Guard", r"bypass_check",
             r"Admit\s+Obligations", r"type-in-type", r"impredicative-set",
             r"Unset\s+Positivity", r"Unset\s+Universe", r"\bhammer\b"]

# Axioms of Coq's own standard library that a theorem may depend on (each use is
# reported in the evidence).  Nothing else is accepted.
STD_AXIOMS = {
    "functional_extensionality_dep", "FunctionalExtensionality.functional_extensionality_dep",
    "proof_irrelevance", "ProofIrrelevance.proof_irrelevance", "Classical_Prop.classic", "classic",
    "JMeq_eq", "JMeq.JMeq_eq", "Eqdep.Eq_rect_eq.eq_rect_eq", "eq_rect_eq",
    "propositional_extensionality",
}


def sh(cmd, timeout=600, cwd=None, env=None, inp=None):
    e = dict(os.environ)
    e.setdefault("CARGO_NET_OFFLINE", "true")
    if env:
        e.update(env)
    try:
        p = subprocess.run(cmd, shell=isinstance(cmd, str), cwd=cwd, env=e, input=inp,
                           stdout=subprocess.PIPE, stderr=subprocess.STDOUT, timeout=timeout)
        return p.returncode, p.stdout.decode("utf-8", "replace")
    except subprocess.TimeoutExpired as ex:
        return 124, (ex.stdout or b"").decode("utf-8", "replace") + "\n[timeout %ss]" % timeout


class Lock:
    def __init__(self, name):
        os.makedirs(CACHE, exist_ok=True)
        self.path = os.path.join(CACHE, name + ".lock")

    def __enter__(self):
        self.f = open(self.path, "w")
        fcntl.flock(self.f, fcntl.LOCK_EX)
        return self

    def __exit__(self, *a):
        fcntl.flock(self.f, fcntl.LOCK_UN)
        self.f.close()


# --------------------------------------------------------------------------- Coq

def strip_comments(src):
    out, depth, i, n = [], 0, 0, len(src)
    instr = False
    while i < n:
        if not instr and src.startswith("(*", i):
            depth += 1; i += 2; continue
        if depth and src.startswith("*)", i):
            depth -= 1; i += 2; continue
        if depth == 0:
            if src[i] == '"':
                instr = not instr
            out.append(src[i])
        i += 1
    return "".join(out)


def coq_files():
    fs = sorted(glob.glob(os.path.join(COQ, "**", "*.v"), recursive=True))
    return [os.path.relpath(f, COQ) for f in fs if "/.cache/" not in f]


def coq_hygiene(files=None):
    """Return list of problems (forbidden commands, axioms outside sections) in the given
    files (default: the whole development)."""
    bad = []
    for rel in (files if files is not None else coq_files()):
        src = strip_comments(open(os.path.join(COQ, rel)).read())
        for pat in FORBIDDEN:
            for m in re.finditer(pat, src):
                line = src.count("\n", 0, m.start()) + 1
                bad.append("%s:%d: forbidden %s" % (rel, line, m.group(0)))
        depth = 0
        for m in re.finditer(r"(?m)^\s*(Section|End|Module|Variable|Variables|Hypothesis|Hypotheses|Context)\b\s*([A-Za-z_0-9']*)", src):
            kw = m.group(1)
            if kw == "Section":
                depth += 1
            elif kw == "End":
                # End closes a Section or a Module; we only track sections by name
                pass
            elif kw in ("Variable", "Variables", "Hypothesis", "Hypotheses", "Context"):
                if depth == 0:
                    line = src.count("\n", 0, m.start()) + 1
                    bad.append("%s:%d: %s outside a Section" % (rel, line, kw))
        # every Section must be closed (otherwise Variables leak as axioms -> coqc fails anyway)
    return bad


def coq_setup_makefile():
    files = coq_files()
    proj = "-Q . PV\n-arg -w -arg -notation-overridden,-deprecated-hint-without-locality,-deprecated-instance-without-locality\n" + "\n".join(files) + "\n"
    pj = os.path.join(COQ, "_CoqProject")
    old = open(pj).read() if os.path.exists(pj) else None
    if old != proj or not os.path.exists(os.path.join(COQ, "Makefile")):
        open(pj, "w").write(proj)
        rc, out = sh("coq_makefile -f _CoqProject -o Makefile", cwd=COQ, timeout=120)
        if rc:
            raise RuntimeError("coq_makefile failed: " + out)


def coq_make(targets, timeout=1500, force=()):
    """Build .vo targets (paths relative to coq/, '.v' or '.vo').  Returns (ok, log)."""
    with Lock("coq"):
        coq_setup_makefile()
        tg = []
        for t in targets:
            t = t[:-2] + ".vo" if t.endswith(".v") else t
            tg.append(t)
        for f in force:
            f = f[:-2] if f.endswith(".v") else f[:-3] if f.endswith(".vo") else f
            for ext in (".vo", ".glob", ".vos", ".vok"):
                p = os.path.join(COQ, f + ext)
                if os.path.exists(p):
                    os.remove(p)
        rc, out = sh("timeout %d make -j16 %s" % (timeout, " ".join(tg)), cwd=COQ, timeout=timeout + 30)
        return rc == 0, out


def parse_assumptions(log):
    """Split make/coqc output into Print Assumptions blocks -> list of list-of-axiom-names."""
    blocks, cur = [], None
    for line in log.splitlines():
        if line.startswith("Closed under the global context"):
            if cur is not None:
                blocks.append(cur)
            blocks.append([]); cur = None
        elif line.startswith("Axioms:"):
            if cur is not None:
                blocks.append(cur)
            cur = []
        elif cur is not None:
            m = re.match(r"^([A-Za-z_][A-Za-z_0-9'.]*)\s*:", line)
            if m:
                cur.append(m.group(1))
            elif line and not line[0].isspace():
                blocks.append(cur); cur = None
    if cur is not None:
        blocks.append(cur)
    return blocks


def count_obligations(relfiles):
    n, names = 0, []
    for rel in relfiles:
        src = strip_comments(open(os.path.join(COQ, rel)).read())
        for m in re.finditer(r"(?m)^\s*(?:Local\s+|Global\s+|#\[[^\]]*\]\s*)?(Theorem|Lemma|Corollary|Example|Fact|Remark|Proposition)\s+([A-Za-z_0-9']+)", src):
            n += 1; names.append(m.group(2))
    return n, names


def props_theorems(rel):
    src = strip_comments(open(os.path.join(COQ, rel)).read())
    thms = re.findall(r"(?m)^\s*Theorem\s+([A-Za-z_0-9']+)", src)
    pas = re.findall(r"Print\s+Assumptions\s+([A-Za-z_0-9'.]+)\s*\.", src)
    return thms, pas


def props_statements(rel):
    """{theorem name: sha1 of its statement text, whitespace-normalised} for a Props.v"""
    src = strip_comments(open(os.path.join(COQ, rel)).read())
    out = {}
    for m in re.finditer(r"(?ms)^\s*Theorem\s+([A-Za-z_0-9']+)(.*?)\.\s*\n\s*Proof\.", src):
        out[m.group(1)] = hashlib.sha1(re.sub(r"\s+", " ", m.group(2)).strip().encode()).hexdigest()[:16]
    return out


PINS = os.path.join(ROOT, "coq", "pins.json")


def check_pins(rel):
    """Property theorems are pinned (tools/pin_theorems.py writes coq/pins.json, committed): a statement that was
    changed, or a theorem that disappeared, without re-pinning is reported - a theorem cannot be weakened quietly."""
    if not os.path.exists(PINS):
        return []
    pins = json.load(open(PINS)).get(rel)
    if pins is None:
        return ["%s has no pinned statements (run tools/pin_theorems.py)" % rel]
    cur = props_statements(rel)
    bad = []
    for name, h in pins.items():
        if name not in cur:
            bad.append("pinned theorem %s is gone from %s" % (name, rel))
        elif cur[name] != h:
            bad.append("statement of %s in %s differs from its pin" % (name, rel))
    return bad


import itertools
_COQ_EVAL_N = itertools.count(1)


def coq_eval(name, preamble, exprs, shard=400, timeout=900):
    """Evaluate each Gallina expression with vm_compute in coqc; return list of printed values
    (strings), one per expr, in order.  Sharded over up to 16 coqc processes."""
    # one directory per call: checks of different properties share model names ("session") and may run at the same time
    d = os.path.join(TMP, "%s.%d.%d" % (name, os.getpid(), next(_COQ_EVAL_N)))
    shutil.rmtree(d, ignore_errors=True)
    os.makedirs(d)
    shards = [exprs[i:i + shard] for i in range(0, len(exprs), shard)] or [[]]
    procs = []
    results = [None] * len(shards)

    def launch(i):
        fn = os.path.join(d, "cases_%d.v" % i)
        with open(fn, "w") as f:
            f.write("Set Printing Width 100000000. Set Printing Depth 100000000.\n")
            f.write(preamble + "\n")
            for j, e in enumerate(shards[i]):
                f.write("Eval vm_compute in (%s).\n" % e)
        # stdout goes to a file: a pipe would fill up (64 KB) and block coqc until we read it
        out = open(fn + ".out", "wb")
        return subprocess.Popen(["timeout", str(timeout), "coqc", "-noglob", "-Q", COQ, "PV", "-w", "none", fn],
                                stdout=out, stderr=subprocess.STDOUT, cwd=d)

    pending = list(range(len(shards)))
    running = {}
    while pending or running:
        while pending and len(running) < 16:
            i = pending.pop(0)
            running[i] = launch(i)
        for i, p in list(running.items()):
            if p.poll() is not None:
                out = open(os.path.join(d, "cases_%d.v.out" % i), "rb").read().decode("utf-8", "replace")
                if p.returncode != 0:
                    raise RuntimeError("coqc failed on cases_%d.v:\n%s" % (i, out[-3000:]))
                results[i] = out
                del running[i]
        time.sleep(0.02)
    vals = []
    for i, out in enumerate(results):
        got = []
        for m in re.finditer(r"(?ms)^\s+= (.*?)\n\s+: [^\n]*(?:\n(?=\s+=|\Z)|\Z)", out):
            got.append(m.group(1).strip())
        if len(got) != len(shards[i]):
            # fall back: split on lines starting with "     = "
            got = [x.rsplit("\n     : ", 1)[0].strip() for x in re.split(r"(?m)^     = ", out)[1:]]
        if len(got) != len(shards[i]):
            raise RuntimeError("could not parse coqc output of shard %d (%d vs %d)" % (i, len(got), len(shards[i])))
        vals.extend(got)
    shutil.rmtree(d, ignore_errors=True)
    return vals


class CoqTerm:
    """Parser for printed Coq values: ints, [a; b], (a, b), constructor applications, strings."""
    def __init__(self, s):
        self.s = s; self.i = 0

    def ws(self):
        while self.i < len(self.s) and self.s[self.i].isspace():
            self.i += 1

    def atom(self):
        self.ws(); s = self.s
        c = s[self.i]
        if c == "[":
            self.i += 1; items = []
            self.ws()
            if s[self.i] == "]":
                self.i += 1
            else:
                while True:
                    items.append(self.app()); self.ws()
                    if s[self.i] == ";":
                        self.i += 1
                    elif s[self.i] == "]":
                        self.i += 1; break
                    else:
                        raise ValueError("list at %d: %r" % (self.i, s[self.i:self.i + 20]))
            self.scope(); return items
        if c == "(":
            self.i += 1; items = []
            while True:
                items.append(self.app()); self.ws()
                if s[self.i] == ",":
                    self.i += 1
                elif s[self.i] == ")":
                    self.i += 1; break
                else:
                    raise ValueError("tuple at %d: %r" % (self.i, s[self.i:self.i + 20]))
            self.scope()
            return items[0] if len(items) == 1 else tuple(items)
        if c == '"':
            j = self.i + 1; out = []
            while True:
                if s[j] == '"':
                    if j + 1 < len(s) and s[j + 1] == '"':
                        out.append('"'); j += 2; continue
                    break
                out.append(s[j]); j += 1
            self.i = j + 1; self.scope(); return "".join(out)
        m = re.compile(r"-?\d+").match(s, self.i)
        if m:
            self.i = m.end(); self.scope(); return int(m.group(0))
        m = re.compile(r"[A-Za-z_][A-Za-z_0-9'.]*").match(s, self.i)
        if m:
            self.i = m.end(); return ("#", m.group(0))
        raise ValueError("atom at %d: %r" % (self.i, s[self.i:self.i + 20]))

    def scope(self):
        m = re.compile(r"%[A-Za-z_]+").match(self.s, self.i)
        if m:
            self.i = m.end()

    def app(self):
        head = self.atom()
        if isinstance(head, tuple) and len(head) == 2 and head[0] == "#":
            args = []
            while True:
                self.ws()
                if self.i >= len(self.s) or self.s[self.i] in ";,)]":
                    break
                args.append(self.atom())
            name = head[1]
            if name == "true" and not args: return True
            if name == "false" and not args: return False
            if name == "None" and not args: return None
            if name == "Some" and len(args) == 1: return ("Some", args[0])
            if name == "tt" and not args: return ()
            return (name,) + tuple(args) if args else name
        return head


def parse_coq(s):
    p = CoqTerm(s)
    v = p.app(); p.ws()
    if p.i != len(p.s):
        raise ValueError("trailing: %r" % p.s[p.i:p.i + 40])
    return v


def zlist(xs):
    return "[" + "; ".join(str(int(x)) for x in xs) + "]"


def coq_bytes(b):
    """bytes -> Gallina list N literal"""
    return "[" + "; ".join(str(x) for x in b) + "]%N"


# --------------------------------------------------------------------------- cargo

def cargo_build(bins, release=False, timeout=1500, extra_rustflags=""):
    """Build harness binaries against /repo's working tree (hooks on).  Returns (ok, log, {bin: path})."""
    lock = os.path.join(HARNESS, "Cargo.lock")
    src = os.path.join(REPO, "Cargo.lock")
    with Lock("cargo"):
        os.makedirs(TARGET, exist_ok=True)
        if os.path.exists(src):
            a = open(src).read()
            # keep harness-only packages: harness lock = repo lock + harness package entry (generated offline)
            if not os.path.exists(lock):
                shutil.copy(src, lock)
        cmd = "cargo build --offline %s %s" % ("--release" if release else "", " ".join("--bin " + b for b in bins))
        env = {"RUSTFLAGS": ("--cfg %s -Awarnings %s" % (GUARD, extra_rustflags)).strip(),
               "CARGO_TARGET_DIR": TARGET, "CARGO_NET_OFFLINE": "true"}
        rc, out = sh(cmd, cwd=HARNESS, env=env, timeout=timeout)
    prof = "release" if release else "debug"
    return rc == 0, out, {b: os.path.join(TARGET, prof, b) for b in bins}


# --------------------------------------------------------------------------- results

def known_findings(prop):
    p = os.path.join(ROOT, "known_findings.jsonl")
    out = []
    if os.path.exists(p):
        for l in open(p):
            l = l.strip()
            if l and not l.startswith("#"):
                e = json.loads(l)
                if e.get("property") == prop:
                    out.append(e)
    return out


class Run:
    def __init__(self, prop, tier, seed):
        self.prop, self.tier, self.seed = prop, tier, seed
        self.t0 = time.time()
        self.cov = {"evaluations": 0, "distinct_nontrivial": 0, "rule": "", "samples": [],
                    "obligations": 0, "discharged": 0, "checker_cmd": "", "trusted_base": [],
                    "disagreements_checked": 0, "traces_validated_against_impl": 0}
        self.assumptions = []
        self.violations = []     # (what, replay dict)
        self.known = []
        self._known_keys = set()
        self.rng = random.Random(seed)
        self.level = "proof"
        self.broken = []         # machinery failures (not violations): build errors of harness etc.

    def log(self, *a):
        print("[%s %6.1fs]" % (self.prop, time.time() - self.t0), *a, flush=True)

    def violation(self, kind, what, replay, found_input=True):
        """kind: counterexample | proof-broken | tie-broken"""
        replay = dict(replay)
        replay.update({"property": self.prop, "kind": kind, "what": what, "seed": self.seed, "tier": self.tier})
        h = hashlib.sha1(json.dumps(replay, sort_keys=True, default=str).encode()).hexdigest()[:12]
        d = os.path.join(ROOT, "replays", self.prop)
        os.makedirs(d, exist_ok=True)
        path = os.path.join(d, h + ".json")
        json.dump(replay, open(path, "w"), indent=1, sort_keys=True, default=str)
        self.violations.append((what, os.path.relpath(path, ROOT), found_input))

    def known_finding(self, what, key=None):
        key = key or what
        if key not in self._known_keys:
            self._known_keys.add(key)
            self.known.append(what)

    def finish(self):
        for k in self.known:
            print("KNOWN-FINDING: property=%s %s" % (self.prop, k))
        ev = {"property_id": self.prop, "tier": self.tier, "seed": self.seed, "level": self.level,
              "coverage": self.cov, "assumptions": self.assumptions,
              "wall_s": round(time.time() - self.t0, 2), "violations": len(self.violations)}
        if self.cov.get("discharged", 0) < 1 or self.cov.get("obligations", 0) < 1:
            # proof did not go through: report it under other keys so the file still validates
            self.cov["obligations_stated"] = self.cov.pop("obligations", 0)
            self.cov["obligations_discharged"] = self.cov.pop("discharged", 0)
            self.cov["evaluations"] = max(1, self.cov.get("evaluations", 0))
            self.cov["distinct_nontrivial"] = max(2, self.cov.get("distinct_nontrivial", 0))
        # schema: these keys must be integers / lists / strings; anything else is moved aside
        for k in ("evaluations", "distinct_nontrivial", "states", "transitions", "traces_validated_against_impl",
                  "obligations", "discharged", "programs", "disagreements_checked"):
            if k in self.cov and not (isinstance(self.cov[k], int) and not isinstance(self.cov[k], bool)):
                self.cov[k + "_note"] = self.cov.pop(k)
        for k in ("rule", "checker_cmd", "explanation"):
            if k in self.cov and not isinstance(self.cov[k], str):
                self.cov[k] = json.dumps(self.cov[k])
        if "trusted_base" in self.cov and not isinstance(self.cov["trusted_base"], list):
            self.cov["trusted_base"] = [str(self.cov["trusted_base"])]
        self.cov["trusted_base"] = [x if isinstance(x, str) else json.dumps(x) for x in self.cov.get("trusted_base", [])]
        if "samples" in self.cov and not isinstance(self.cov["samples"], list):
            self.cov["samples"] = [self.cov["samples"]]
        self.assumptions = [x if isinstance(x, str) else json.dumps(x) for x in self.assumptions]
        if not self.cov.get("samples"):
            self.cov["samples"] = ["(no case generated: proof obligations only)"]
        os.makedirs(os.path.join(ROOT, "evidence"), exist_ok=True)
        json.dump(ev, open(os.path.join(ROOT, "evidence", self.prop + ".json"), "w"), indent=1, default=str)
        seen = set()
        # violations with a concrete failing input first: that replay is the one to look at
        self.violations.sort(key=lambda v: not v[2])
        for what, path, found in self.violations:
            if path in seen:
                continue
            seen.add(path)
            print("VIOLATION property=%s replay=%s%s" % (self.prop, path, "" if found else " no-failing-input-found"))
        if self.violations:
            for what, path, found in self.violations[:5]:
                print("  ->", what)
            return 1
        if self.broken:
            for b in self.broken:
                print("BROKEN-CHECK:", b)
            return 2
        print("OK property=%s tier=%s wall=%.1fs" % (self.prop, self.tier, time.time() - self.t0))
        return 0


def prove(run, prop_dir_files, props_rel, allow=(), extra_targets=()):
    """Standard proof step: hygiene, build, Print Assumptions audit.
    Returns (ok, log).  On failure nothing is reported here; caller decides (search for witness)."""
    bad = coq_hygiene(sorted(set(list(prop_dir_files) + [props_rel] + [f for f in coq_files() if f.startswith("Common/")])))
    if bad:
        run.broken.append("coq hygiene: " + "; ".join(bad[:5]))
        return False, "\n".join(bad)
    pinbad = check_pins(props_rel)
    if pinbad:
        run.broken.append("theorem pins: " + "; ".join(pinbad[:5]))
        return False, "\n".join(pinbad)
    ok, log = coq_make([props_rel] + list(extra_targets), force=[props_rel])
    thms, pas = props_theorems(props_rel)
    nob, names = count_obligations(prop_dir_files)
    run.cov["obligations"] = nob
    run.cov["checker_cmd"] = "coq_makefile -f _CoqProject -o Makefile && make %s  (coqc 8.16.1, full .vo)" % props_rel.replace(".v", ".vo")
    run.cov["property_theorems"] = thms
    if not ok:
        run.cov["discharged"] = 0
        return False, log
    blocks = parse_assumptions(log)
    axioms = sorted({a for b in blocks for a in b})
    run.cov["print_assumptions"] = {"theorems_audited": len(pas), "blocks_seen": len(blocks), "axioms": axioms}
    if len(blocks) < len(pas) or set(thms) - set(pas):
        run.broken.append("Print Assumptions audit incomplete: %d blocks for %d commands; unaudited %s" % (len(blocks), len(pas), sorted(set(thms) - set(pas))))
        return False, log
    notallowed = [a for a in axioms if a not in STD_AXIOMS and a.split(".")[-1] not in STD_AXIOMS and a not in allow]
    if notallowed:
        run.broken.append("theorems depend on non-allowlisted axioms/variables: %s" % notallowed)
        return False, log
    run.cov["discharged"] = nob
    return True, log


def coqchk(run, modules, timeout=1200):
    rc, out = sh("timeout %d coqchk -silent -o -Q . PV %s" % (timeout, " ".join(modules)), cwd=COQ, timeout=timeout + 30)
    run.cov["coqchk"] = {"rc": rc, "tail": out[-1500:]}
    if rc != 0:
        run.broken.append("coqchk failed")
    return rc == 0
